"""C01: assembly, schedule, elimination, ends, scheme, refusal rules (see c01.py)."""
from __future__ import annotations

import ast
from fractions import Fraction as Fr

from sa.algebra import (Und, Rat, PW, ObjV, SymArr, NONE, rat_of, as_pw, ONE, ZERO, parse_ref)
from sa.arrprog import ArrEvaluator, ArrV, IdxV, SelV
from sa.core import AnalysisError, unparse, walk_no_nested
from sa.terms import Expander, T
from . import idx as idxm, kin

SV = "jaxley/solver_voltage.py"
SU = "jaxley/utils/solver_utils.py"


class _Stop(Exception):
    pass


def _arr_eval(repo):
    ev = ArrEvaluator(repo)
    ev.opaque_calls["exprel"] = kin.exprel_call
    orig = ev.test

    def is_count(x, env, ctx):
        """a number of entries: len(X), X.size, X.shape[0], np.size(X), or a local that holds one of these (whatever it is called)"""
        if isinstance(x, ast.Call) and isinstance(x.func, ast.Name) and x.func.id == "len":
            return True
        if isinstance(x, ast.Call) and isinstance(x.func, ast.Attribute) and x.func.attr in ("size", "count_nonzero") and \
                isinstance(x.func.value, ast.Name) and x.func.value.id in ("np", "jnp"):
            return True
        if isinstance(x, ast.Attribute) and x.attr == "size":
            return True
        if isinstance(x, ast.Subscript) and isinstance(x.value, ast.Attribute) and x.value.attr == "shape" and \
                isinstance(x.slice, ast.Constant) and x.slice.value == 0:
            return True
        if isinstance(x, ast.Name):
            v = env.get(x.id)
            try:
                r = rat_of(v) if isinstance(v, PW) else None
            except Exception:
                r = None
            if r is not None:
                at = r.atoms()
                return bool(at) and all(a_.startswith("len(") for a_ in at)
            return x.id.startswith("num_") and v is None
        return False

    def test(t, env, ctx):
        # emptiness guards -- `if len(x) > 0:`, `if n != 0:`, `if x.size:`, `if len(x) == 0: return <empty result>`, `if not len(x):`
        # -- are decided for the generic (non-empty) case
        if isinstance(t, ast.Compare) and len(t.ops) == 1 and isinstance(t.comparators[0], ast.Constant) and is_count(t.left, env, ctx):
            op, k = t.ops[0], t.comparators[0].value
            if (isinstance(op, (ast.Gt, ast.NotEq)) and k == 0) or (isinstance(op, ast.GtE) and k == 1):
                return True
            if (isinstance(op, (ast.Eq, ast.LtE)) and k == 0) or (isinstance(op, ast.Lt) and k == 1):
                return False
        if isinstance(t, ast.Compare) and len(t.ops) == 1 and isinstance(t.left, ast.Constant) and is_count(t.comparators[0], env, ctx):
            op, k = t.ops[0], t.left.value
            if (isinstance(op, (ast.Lt, ast.NotEq)) and k == 0) or (isinstance(op, ast.LtE) and k == 1):
                return True
            if (isinstance(op, (ast.Eq, ast.GtE)) and k == 0) or (isinstance(op, ast.Gt) and k == 1):
                return False
        if isinstance(t, ast.UnaryOp) and isinstance(t.op, ast.Not) and is_count(t.operand, env, ctx):
            return False
        if is_count(t, env, ctx) and not isinstance(t, ast.Name):
            return True
        return orig(t, env, ctx)

    ev.test = test
    return ev


def _abstract_args(fi, overrides=None):
    overrides = overrides or {}
    out = []
    for p in fi.params:
        if p in overrides:
            out.append(overrides[p])
        elif p in ("sinks", "sources", "internal_node_inds", "par_inds", "child_inds", "data_inds", "indices", "indptr"):
            out.append(ArrV(p, kind="index"))
        elif p in ("cil", "pil", "bil"):
            out.append(IdxV(p))
        elif p == "idx":
            out.append(ObjV("JaxleySolveIndexer"))
        elif p == "delta_t":
            out.append(PW.of(Rat.atom("dt")))
        elif p in ("nbranches", "solver", "tridiag_solver", "debug_states", "ncomp_per_branch", "n_nodes"):
            out.append(PW.of(Rat.atom(p)))
        else:
            out.append(ArrV(p))
    return out


def _table(a: ArrV):
    """Canonical contribution table of an abstract array: (init, scale, [(index, op, form)])."""
    ups = []
    for ix, op, val, node in a.updates:
        ups.append((ix, op, rat_of(val), node))
    return a.init, a.scale, ups


def _fmt_table(a: ArrV):
    init, scale, ups = _table(a)
    s = f"init={init}" + (f" * ({scale})" if scale is not None else "")
    for ix, op, v, _n in ups:
        s += f"; {op} {v} at {ix}"
    return s


def _cmp_table(ev, col, rule, fi, name, a, want_init, want_scale, want_ups, node=None):
    """want_ups: list of (index desc, op, reference formula text)."""
    if not isinstance(a, ArrV):
        col.unk(rule, fi, f"{name}", "not an abstract array", node=node or fi.node)
        return
    init, scale, ups = _table(a)
    ok = init == want_init
    sc = scale if scale is not None else ONE
    ok = ok and sc.eq(parse_ref(ev, want_scale) if want_scale else ONE)
    got = [(ix, op, v) for ix, op, v, _n in ups]
    missing, extra = [], list(got)
    for wix, wop, wtxt in want_ups:
        wv = parse_ref(ev, wtxt, _ATOMS)
        hit = None
        for g in extra:
            if g[0] == wix and g[1] == wop and g[2].eq(wv):
                hit = g
                break
        if hit is None:
            missing.append((wix, wop, wtxt))
        else:
            extra.remove(hit)
    ok = ok and not missing and not extra
    nd = node
    if (missing or extra) and ups:
        nd = ups[0][3]
    col.check(ok, rule, fi, f"{name}: contribution table",
              f"{_fmt_table(a)}",
              f"`{name}` is assembled as [{_fmt_table(a)}]; the backward-Euler matrix needs init={want_init}"
              + (f" * ({want_scale})" if want_scale else "")
              + "".join(f"; {o} {t} at {i}" for i, o, t in want_ups)
              + (f" -- missing {missing}" if missing else "") + (f" -- unexpected {[(g[0], g[1], repr(g[2])) for g in extra]}" if extra else ""),
              node=nd or fi.node)


class _AtomEnv(dict):
    """Reference formulas use identifiers like g_0_1_2 / g_0_gt for axial_conductances{0,1,2}@each."""

    def __missing__(self, k):
        raise KeyError(k)


def _mk_atoms():
    env = {}

    def g(sel):
        return PW.of(Rat.atom(f"axial_conductances{sel}@each"))

    env["g012"] = g("{0,1,2}")
    env["g0gt"] = g("{0;src>snk}")
    env["g0lt"] = g("{0;src<snk}")
    for t in (1, 2, 3, 4):
        env[f"g{t}"] = g("{%d}" % t)
    env["gall"] = PW.of(Rat.atom("axial_conductances@each"))
    env["vt"] = PW.of(Rat.atom("voltage_terms@each"))
    env["ct"] = PW.of(Rat.atom("constant_terms@each"))
    env["v"] = PW.of(Rat.atom("voltages@each"))
    env["w34"] = PW.of(Rat.atom("concat(axial_conductances{3},axial_conductances{4})@each"))
    return env


_ATOMS = _mk_atoms()


def check(repo, col, tier):
    col.rule("R-C01-assembly", "contribution tables of the implicit back ends == backward-Euler matrix rows", 12)
    col.rule("R-C01-elim", "elimination steps are Gaussian row operations", 10)
    col.rule("R-C01-schedule", "level order and per-level call order", 8)
    col.rule("R-C01-ends", "parents attach at their last, children at their first compartment", 4)
    col.rule("R-C01-scheme", "solver formulas and solver_kwargs", 10)
    col.rule("R-C01-refuse", "unsupported models / unknown solver names are refused", 3)
    col.rule("R-C01-conductances", "axial conductances entering the matrix: roles, textbook form, branch-point weights", 6)
    col.rule("R-C01-merge", "the level schedule of a network contains every level of every cell", 1)
    from . import cable
    cable.check_axial(repo, col, {"roles": "R-C01-conductances", "oracle": "R-C01-conductances",
                                  "kirchhoff": "R-C01-conductances", "cap": "R-C01-conductances"})
    _merge(repo, col)
    col.rule("R-C01-levels", "level bookkeeping, branch-point grouping and within-branch edge tables", 8)
    _levels(repo, col)
    cap = _assembly_jaxley(repo, col)
    _assembly_sparse(repo, col)
    _explicit(repo, col)
    _elim(repo, col)
    _schedule(repo, col)
    _ends(repo, col)
    category_major(repo, col, "R-C01-ends")
    _scheme(repo, col)
    _refuse(repo, col)
    col.rule("R-C01-explicit", "forward Euler vector field of an unbranched module", 4)
    _vectorfield(repo, col)


# --------------------------------------------------------------------------------------


def _padded_sizes(repo, col, R, fi):
    """The arrays of the custom solver are addressed through the solve indexer (`idx.mask(rows)`, `idx.first(b)`, ...), i.e. in the
    PADDED layout: every branch of a tree level has as many slots as the longest branch of that level.  They must therefore have
    `idx.cumsum_ncomp[-1]` entries.  The number of real compartments (`len(internal_node_inds)`, `len(voltages)`) is smaller as soon as
    two branches of a level differ in length; jax then silently drops the scatters beyond the end and clamps the gathers."""
    ex = idxm.expander(repo, fi)
    terms = []
    for c in ex.calls:
        try:
            terms.append(ex.term(c))
        except Exception:
            pass
    seen, n = set(), 0
    for t in terms:
        for x in t.walk():
            if not (x.op == "sub" and x.args[0].op == "attr" and x.args[0].name == "at"):
                continue
            ixs = T.find(x.args[1], lambda y: y.op == "mcall" and y.name in ("mask", "first", "last", "lower", "upper", "branch") and
                         y.args and y.args[0].op == "param" and y.args[0].name == "idx")
            if ixs is None:
                continue
            base = x.args[0].args[0]
            while base.op == "mcall" and base.name in ("add", "set", "multiply", "divide") and base.args and base.args[0].op == "sub" and \
                    base.args[0].args[0].op == "attr" and base.args[0].args[0].name == "at":
                base = base.args[0].args[0].args[0]
            if not (base.op == "mcall" and base.name in ("zeros", "ones", "full", "empty") and len(base.args) >= 2):
                continue
            size = base.args[1]
            if size.op == "tuple" and len(size.args) == 1:
                size = size.args[0]
            if size.key() in seen:
                continue
            seen.add(size.key())
            n += 1
            padded = size.op == "sub" and size.args[0].op == "attr" and size.args[0].name == "cumsum_ncomp" and size.args[0].args[0].op == "param" and \
                size.args[0].args[0].name == "idx" and ((size.args[1].op == "unary" and size.args[1].name == "USub") or (size.args[1].op == "const" and size.args[1].name == -1))
            real = T.find(size, lambda y: y.op == "param" and y.name in ("internal_node_inds", "voltages", "voltage_terms", "constant_terms")) is not None
            col.add(R, fi, "arrays addressed through the solve indexer have the padded size", "DISCHARGED" if padded else ("VIOLATED" if real else "UNDECIDED"),
                    "idx.cumsum_ncomp[-1]" if padded else
                    f"an array of `{size.short(60)}` entries is addressed with `{ixs.short(40)}`: the indexer addresses the padded layout "
                    f"(idx.cumsum_ncomp[-1] slots); with branches of different lengths in one level the real compartment count is smaller, "
                    f"scatters beyond the end are dropped and gathers are clamped", node=base.node or fi.node)
    if n == 0:
        col.unk(R, fi, "arrays addressed through the solve indexer have the padded size", "no array addressed through the indexer found", node=fi.node)


def _assembly_jaxley(repo, col, R=None):
    R = R or "R-C01-assembly"
    fi = repo.func(SV, "step_voltage_implicit_with_jaxley_spsolve")
    _padded_sizes(repo, col, R, fi)
    tri = repo.func(SV, "_triang_branched")
    ev = _arr_eval(repo)
    cap = {}

    def capture(ev_, args, kw):
        cap["args"] = args
        raise _Stop()

    ev.opaque_calls["_triang_branched"] = capture
    try:
        ev.call(fi, _abstract_args(fi))
    except _Stop:
        pass
    except Und as e:
        col.unk(R, fi, "assembly of the tridiagonal + branch-point system", f"outside the analysable fragment: {e}", node=fi.node)
        return None
    if "args" not in cap:
        raise AnalysisError("step_voltage_implicit_with_jaxley_spsolve no longer calls _triang_branched")
    names = tri.params
    a = dict(zip(names, cap["args"]))
    M = "mask(internal_node_inds)"
    want = {
        "diags": ("ones", None, [("mask(sinks{0,1,2})", "add", "dt*g012"), (M, "add", "dt*vt")]),
        "solves": ("zeros", None, [(M, "add", "v + dt*ct")]),
        "uppers": ("zeros", None, [("mask(sinks{0;src>snk})", "add", "-dt*g0gt")]),
        "lowers": ("zeros", None, [("mask(sinks{0;src<snk})", "add", "-dt*g0lt")]),
        "branchpoint_conds_children": ("zeros", None, [("child_inds", "set", "-dt*g2")]),
        "branchpoint_conds_parents": ("zeros", None, [("par_inds", "set", "-dt*g1")]),
        "branchpoint_weights_children": ("zeros", None, [("child_inds", "set", "g4")]),
        "branchpoint_weights_parents": ("zeros", None, [("par_inds", "set", "g3")]),
        "branchpoint_diags": ("zeros", "-1", [("idx.branchpoint_group_inds", "add", "w34")]),
        "branchpoint_solves": ("zeros", None, []),
    }
    for nm, (wi, ws, wu) in want.items():
        if nm not in a:
            raise AnalysisError(f"_triang_branched no longer has a parameter `{nm}`")
        _cmp_table(ev, col, R, fi, nm, a[nm], wi, ws, wu)
    # result: solves read back through the mask of the internal nodes
    ex = idxm.expander(repo, fi)
    r = ex.returns[-1] if ex.returns else None
    ok = r is not None and r.op == "sub" and T.find(r.args[1], lambda x: x.op == "mcall" and x.name == "mask") is not None \
        and T.find(r.args[1], lambda x: x.op == "param" and x.name == "internal_node_inds") is not None \
        and T.find(r.args[0], lambda x: x.op == "call" and x.name == "_backsub_branched") is not None
    col.check(ok, R, fi, "solution read back at mask(internal_node_inds)", "solves[idx.mask(internal_node_inds)]",
              f"returns {r.short() if r else None}", node=fi.node)
    # the same system goes to triangulation and back-substitution
    tb = [c for c in ex.calls if isinstance(c.func, ast.Name) and c.func.id in ("_triang_branched", "_backsub_branched")]
    if len(tb) == 2:
        for c, callee in zip(tb, ("_triang_branched", "_backsub_branched")):
            cf = repo.func(SV, callee)
            argn = [unparse(x) for x in c.args]
            swapped = [(p, a_) for p, a_ in zip(cf.params, argn) if a_ != p and a_ in cf.params]
            col.check(not swapped, R, fi, f"{callee}: arguments passed in their roles", "argument names match parameter roles",
                      f"{callee} receives {swapped} (argument bound to another parameter's role)", node=c)
    return a


def _assembly_sparse(repo, col, R=None):
    R = R or "R-C01-assembly"
    fi = repo.func(SV, "step_voltage_implicit_with_jax_spsolve")
    # rebuild the pieces from the function environment: evaluate again, keeping the env
    ex = idxm.expander(repo, fi)
    ev = _arr_eval(repo)
    env = {}
    for p, v in zip(fi.params, _abstract_args(fi)):
        env[p] = v
    ctx = {"mod": repo.mods[fi.file], "cls": None, "defining_cls": None}
    seen = {}
    try:
        for st in fi.node.body:
            if any("spsolve" in unparse(x.func) for x in ast.walk(st) if isinstance(x, ast.Call)):
                break   # the statement that hands the system to the solver (an assignment or the return itself)
            ev.run_body([st], env, ctx)
    except Und as e:
        col.unk(R, fi, "assembly of the generic sparse system", f"outside the analysable fragment: {e}", node=fi.node)
        return
    # which local variables hold the matrix values, the diagonal and the right-hand side: read off the solver call
    # `spsolve(<values>[data_inds], indices, indptr, <rhs>)` and the concatenation `<values> = concatenate([<diagonal>, -g])`
    sp = next((c for c in ast.walk(fi.node) if isinstance(c, ast.Call) and "spsolve" in unparse(c.func) and len(c.args) >= 4), None)
    n_all = n_rhs = n_diag = None
    if sp is not None:
        a0 = sp.args[0].value if isinstance(sp.args[0], ast.Subscript) else sp.args[0]
        n_all = a0.id if isinstance(a0, ast.Name) else None
        n_rhs = sp.args[3].id if isinstance(sp.args[3], ast.Name) else None
        for st in fi.node.body:
            if isinstance(st, ast.Assign) and isinstance(st.targets[0], ast.Name) and st.targets[0].id == n_all:
                lst = next((x for x in ast.walk(st.value) if isinstance(x, (ast.List, ast.Tuple)) and len(x.elts) == 2), None)
                if lst is not None and isinstance(lst.elts[0], ast.Name):
                    n_diag = lst.elts[0].id
    diag = env.get(n_diag)
    solves = env.get(n_rhs)
    if not isinstance(diag, ArrV) or not isinstance(solves, ArrV):
        raise AnalysisError("step_voltage_implicit_with_jax_spsolve: diagonal_values / solves not found")
    _cmp_table(ev, col, R, fi, "diagonal_values", diag, "zeros", None,
               [("sinks", "add", "dt*gall"), ("internal_node_inds", "add", "1 + dt*vt")])
    _cmp_table(ev, col, R, fi, "solves (jax.sparse)", solves, "zeros", None, [("internal_node_inds", "add", "v + dt*ct")])
    # all_values = concat([diagonal, -dt*g]) in the order (diagonals, off-diagonals)
    av = ex.final_env.get(n_all)
    ok = False
    if av is not None:
        lst = T.find(av, lambda x: x.op == "list")
        if lst is not None and len(lst.args) == 2:
            second = lst.args[1]
            ok = second.op == "unary" and second.name == "USub" and \
                T.find(second, lambda x: x.op == "param" and x.name == "axial_conductances") is not None and \
                T.find(second, lambda x: x.op == "param" and x.name == "delta_t") is not None and \
                T.find(lst.args[0], lambda x: x.op == "mcall" and x.name == "zeros") is not None
    col.check(ok, R, fi, "all_values = [diagonals, -dt*g]", "off-diagonals are the negated scaled conductances, after the diagonals",
              f"all_values is {av.short() if av else None}", node=fi.node)
    # orientation: CSC arrays of M[source, sink] read by a CSR solver => effective row = sink = diagonal index
    cfi = repo.func(SU, "comp_edges_to_indices")
    exc = idxm.expander(repo, cfi)
    call = next((c for c in exc.calls if isinstance(c.func, ast.Name) and c.func.id == "convert_to_csc"), None)
    if call is None:
        raise AnalysisError("comp_edges_to_indices no longer calls convert_to_csc")
    ct = exc.term(call)
    row, colk = idxm.call_arg(repo, cfi.file, ct, "row_ind"), idxm.call_arg(repo, cfi.file, ct, "col_ind")
    if row is None and len(ct.args) >= 3:
        row, colk = ct.args[1], ct.args[2]
    def which(t):
        """'source' / 'sink' column name reached by a term."""
        c = [x.name for x in t.walk() if x.op == "const" and x.name in ("source", "sink")]
        return c[0] if len(set(c)) == 1 else None

    off = None
    if row is not None:
        for x in row.walk():
            if x.op == "mcall" and x.name == "stack" and x.args[1].op == "list" and len(x.args[1].args) == 2:
                if {which(x.args[1].args[0]), which(x.args[1].args[1])} == {"source", "sink"}:
                    off = x

    eff_row = None
    if off is not None and row is not None and colk is not None:
        first, second = which(off.args[1].args[0]), which(off.args[1].args[1])
        r_i = row.args[1].name if row.op == "sub" and row.args[1].op == "const" else None
        c_i = colk.args[1].name if colk.op == "sub" and colk.args[1].op == "const" else None
        pair = {0: first, 1: second}
        # convert_to_csc sorts by (col, row) and builds indptr over col; fed to a CSR solver the
        # compressed axis (col_ind) acts as the row.
        csc = repo.func(SU, "convert_to_csc")
        excsc = idxm.expander(repo, csc)
        compress = None
        for n in ast.walk(csc.node):
            if isinstance(n, ast.Call) and unparse(n.func) == "np.add.at" and len(n.args) >= 2:
                compress = _axis_of(excsc.term(n.args[1]))   # which index the pointer array counts (on the defining term)
        if compress == "col_ind":
            eff_row = pair.get(c_i)
        elif compress == "row_ind":
            eff_row = pair.get(r_i)
        # the three arrays describe ONE layout: entries sorted with the compressed axis as the primary key, `indices` = the other axis
        rr = excsc.returns[-1] if excsc.returns else None
        ls = next((x for t_ in ([rr] if rr is not None else []) for x in t_.walk() if x.op == "mcall" and x.name == "lexsort" and len(x.args) > 1 and x.args[1].op in ("tuple", "list")), None)
        if compress and rr is not None and rr.op == "tuple" and len(rr.args) == 3 and ls is not None and ls.args[1].args:
            primary = _axis_of(ls.args[1].args[-1])
            other = _axis_of(rr.args[1])
            col.check(primary == compress and other is not None and other != compress, R, csc,
                      "convert_to_csc: entries are sorted by the compressed axis first, and `indices` lists the other axis",
                      f"pointer array over {compress}, primary sort key {primary}, indices = {other}",
                      f"the pointer array counts `{compress}`, the entries are sorted primarily by `{primary}` and `indices` holds `{other}`: "
                      f"the three arrays do not describe one compressed layout", node=csc.node)
    dix = diag.updates[0][0] if diag.updates else None
    col.check(eff_row is not None and dix == eff_row + "s", R, cfi,
              "orientation: compressed axis of the (data, indices, indptr) arrays is the sink",
              f"effective row = {eff_row}; diagonal accumulated at `{dix}`",
              f"the sparse matrix is laid out with effective row = `{eff_row}` but the diagonal accumulates the "
              f"conductances at `{dix}`: off-diagonal -dt*g(i<-j) would sit in the row of j", node=call)
    # the index array handed to convert_to_csc (row_ind = <it>[0]): the concatenation [diagonal indices, off-diagonal indices]
    di = row.args[0] if (row is not None and row.op == "sub") else None
    okc = di is not None and T.find(di, lambda x: x.op == "list" and len(x.args) == 2 and
                                    T.find(x.args[0], lambda y: y.op == "mcall" and y.name == "arange") is not None) is not None
    col.check(okc, R, cfi, "index order (diagonals, off-diagonals) matches all_values", "diagonal indices first",
              "all_inds does not list the diagonal indices first", node=cfi.node)
    _dimension(repo, col, R)
    # result read at the internal nodes
    r = ex.returns[-1] if ex.returns else None
    ok = r is not None and T.find(r, lambda x: x.op == "sub" and x.args[1].op == "param" and x.args[1].name == "internal_node_inds") is not None
    col.check(ok, R, fi, "solution read back at internal_node_inds", "branch-point voltages are dropped",
              f"returns {r.short() if r else None}", node=fi.node)


def _merge(repo, col, R=None):
    """merge_cells: per-cell lists of levels (lengths L_c) are merged level by level; the merged
    schedule must have max_c L_c levels and contain level i of every cell that has one."""
    R = R or "R-C01-merge"
    fi = repo.func("jaxley/utils/cell_utils.py", "merge_cells")
    ex = idxm.expander(repo, fi)
    r = ex.returns[-1] if ex.returns else None
    if r is None:
        raise AnalysisError("merge_cells has no return")
    # all terms of the function (return value, stored values, guards): the building blocks are looked for wherever they are,
    # so nested loops with append and comprehensions are treated alike
    terms = list(ex.returns)
    for s_ in ex.stores:
        terms += [t_ for t_ in (s_.value, s_.key) if t_ is not None] + list(s_.guards)
    find = lambda pred: next((x for t_ in terms for x in t_.walk() if pred(x)), None)
    zipstar = find(lambda x: x.op == "call" and x.name == "zip" and any(a.op == "star" for a in x.args))
    longest = find(lambda x: (x.op in ("call", "mcall")) and x.name == "zip_longest")
    if zipstar is not None and longest is None:
        col.bad(R, fi, "merge_cells: number of merged levels",
                "the per-cell level lists are merged with zip(*...), which stops at the shallowest cell: the deeper levels "
                "of deeper cells are dropped from the schedule and their branches are never solved", node=zipstar.node or fi.node)
        return
    if longest is not None:
        col.ok(R, fi, "merge_cells: number of merged levels", "zip_longest covers the deepest cell", node=fi.node)
        col.unk(R, fi, "merge_cells: a cell contributes level i iff it has a level i", "fill values of zip_longest not analysed", node=fi.node)
        return
    # the level index: an element of range(<bound>) used to subscript a per-cell list
    lvl = find(lambda x: x.op == "elem" and x.args[0].op == "call" and x.args[0].name == "range" and len(x.args[0].args) == 1 and
               T.find(x.args[0].args[0], lambda y: y.op == "call" and y.name == "len") is not None)
    if lvl is None:
        col.unk(R, fi, "merge_cells: number of merged levels", "merge idiom not recognised (no level index over range(...))", node=fi.node)
        return
    bound = lvl.args[0].args[0]
    is_max = bound.op == "call" and bound.name == "max"
    is_min = bound.op == "call" and bound.name == "min"
    col.add(R, fi, "merge_cells: number of merged levels", "DISCHARGED" if is_max else ("VIOLATED" if is_min else "UNDECIDED"),
            "range(max number of levels over the cells)" if is_max else
            f"the merge runs over {bound.short(60)} levels; it must cover the deepest cell", node=lvl.node or fi.node)
    # a cell contributes level i iff it has one:  len(<cell's levels>) > i   (as loop guard or comprehension condition)
    cond = find(lambda x: x.op == "cmp" and x.name in (">", "<", ">=", "<=") and len(x.args) == 2 and
                any(a.key() == lvl.key() for a in x.args) and
                any(a.op == "call" and a.name == "len" for a in x.args))
    good = False
    if cond is not None:
        l_left = cond.args[0].op == "call" and cond.args[0].name == "len"
        good = (cond.name == ">" and l_left) or (cond.name == "<" and not l_left)
    col.add(R, fi, "merge_cells: a cell contributes level i iff it has a level i",
            "DISCHARGED" if good else ("UNDECIDED" if cond is None else "VIOLATED"),
            "len(levels of the cell) > i" if good else
            (f"the condition `{cond.short(60)}` does not select exactly the cells with more than i levels" if cond is not None else
             "no condition on the number of levels of a cell found"), node=fi.node)


def _axis_of(t):
    """'row_ind' / 'col_ind': the parameter whose ENTRIES a term holds (reordered `x[perm]`, shifted `x + 1`), whatever the permutation is computed from"""
    while True:
        if t.op == "binop" and len(t.args) == 2:
            nc = [a_ for a_ in t.args if a_.op != "const"]
            if len(nc) != 1:
                return None
            t = nc[0]
        elif t.op == "sub":
            t = t.args[0]
        elif t.op in ("mcall", "call") and t.name in ("asarray", "array", "astype", "copy") and t.args:
            t = next((a_ for a_ in t.args if a_.op != "free"), t.args[0])
        else:
            break
    return t.name if t.op == "param" and t.name in ("row_ind", "col_ind") else None


def _dimension(repo, col, R=None):
    """The generic sparse system has one row per compartment and per branch point.  Inside one
    cell every node is the sink of some edge (edges come in both directions), so
    `max(sinks) + 1` is the node count; a Network is a *disjoint union* of cells -- a cell
    without edges (single compartment) that comes last has no sink, so the dimension must
    come from the node tables there."""
    R = R or "R-C01-assembly"
    fi = repo.method("Network", "_init_morph_jax_spsolve")
    ex = idxm.expander(repo, fi)
    call = next((c for c in ex.calls if isinstance(c.func, ast.Name) and c.func.id == "comp_edges_to_indices"), None)
    if call is None:
        raise AnalysisError("Network._init_morph_jax_spsolve no longer calls comp_edges_to_indices")
    t = ex.term(call)
    cfi = repo.func(SU, "comp_edges_to_indices")
    n_arg = t.kw.get("n_nodes") or (t.args[1] if len(t.args) > 1 else None)
    if n_arg is None:
        # what does the callee infer?
        exc = idxm.expander(repo, cfi)
        r = exc.returns[0] if exc.returns else None
        n_t = r.args[0] if r is not None and r.op == "tuple" else None
        from_edges_only = n_t is not None and all(
            x.name in ("sink", "source") for x in n_t.walk() if x.op == "const" and isinstance(x.name, str))
        col.check(not from_edges_only, R, fi, "Network: dimension of the sparse system covers every compartment",
                  "dimension derived from the node tables",
                  f"the dimension of the `jax.sparse` system of a network is inferred from the edge endpoints only "
                  f"({n_t.short(80) if n_t else '?'}); a network whose last cell has a single compartment (no edges) gets "
                  f"fewer rows than compartments, and those compartments are silently dropped from the solve", node=call)
        return
    # explicit count: compartments + branch points
    leaves = {x.name for x in n_arg.walk() if x.op == "attr"}
    ok = "cumsum_ncomp" in leaves and ("_par_inds" in leaves or "_cumsum_nbranchpoints_per_cell" in leaves)
    col.check(ok, R, fi, "Network: dimension of the sparse system covers every compartment",
              f"n_nodes = {n_arg.short(80)}: compartments + branch points",
              f"the dimension handed to comp_edges_to_indices is {n_arg.short(80)}, not #compartments + #branch points", node=call)
    # the callee must use it
    exc = idxm.expander(repo, cfi)
    r = exc.returns[0] if exc.returns else None
    n_t = r.args[0] if r is not None and r.op == "tuple" else None
    uses = n_t is not None and T.find(n_t, lambda x: x.op == "param" and x.name == "n_nodes") is not None
    col.check(uses, R, cfi, "comp_edges_to_indices honours an explicit node count", "returned n_nodes depends on the argument",
              "the explicit node count is ignored", node=cfi.node)
    # ... in EVERY case: when a count is given it is what is returned, whatever the edges look like
    if n_t is not None:
        from sa.terms import canon as _canon

        def given_leaves(t_):
            if t_.op == "ifexp":
                c_ = t_.args[0]
                tests_none = c_.op == "cmp" and c_.name in ("is", "is not", "==", "!=") and any(a_.op == "param" and a_.name == "n_nodes" for a_ in c_.args) and \
                    any(a_.op == "const" and a_.name is None for a_ in c_.args)
                if tests_none:
                    return given_leaves(t_.args[2] if c_.name in ("is", "==") else t_.args[1])
                return given_leaves(t_.args[1]) + given_leaves(t_.args[2])
            return [t_]
        lv = given_leaves(_canon(n_t))
        okg = all(x.op == "param" and x.name == "n_nodes" for x in lv)
        bad_ = next((x for x in lv if not (x.op == "param" and x.name == "n_nodes")), None)
        col.check(okg, R, cfi, "comp_edges_to_indices returns an explicit node count unchanged, for any edge table", "n_nodes",
                  f"with an explicit count the function can still return `{bad_.short(70) if bad_ is not None else ''}`: nodes without an axial edge at the end of the "
                  f"numbering (single-compartment cells listed last) are dropped from the sparse system", node=cfi.node)


def _explicit(repo, col):
    R = "R-C01-scheme"
    fi = repo.func(SV, "_voltage_vectorfield")
    # the function builds `vecfield = -vt*v + ct` (elementwise) then two scatters
    ex = idxm.expander(repo, fi)
    r = ex.returns[-1]
    base = r
    ups = []
    while base.op == "mcall" and base.name in ("add", "set") and base.args[0].op == "sub" and base.args[0].args[0].op == "attr" \
            and base.args[0].args[0].name == "at":
        ups.append((unparse(base.args[0].args[1].node), base.name, base.args[1]))
        base = base.args[0].args[0].args[0]
    ups = ups[::-1]
    ev2 = _arr_eval(repo)
    env = {p: v for p, v in zip(fi.params, _abstract_args(fi))}
    ctx = {"mod": repo.mods[fi.file], "cls": None, "defining_cls": None}
    try:
        b = rat_of(ev2.ev(base.node, env, ctx)) if base.node is not None else None
    except Und:
        b = None
    want = parse_ref(ev2, "-vt*v + ct", _ATOMS)
    col.check(b is not None and b.eq(want), R, fi, "explicit vector field: membrane part",
              "-voltage_terms*v + constant_terms", f"membrane part is {b}", node=fi.node)
    desc = {(s, o) for s, o, _v in ups}
    col.check(desc == {("(slice(None, None, None), slice(None, -1, None))", "add"), ("(slice(None, None, None), slice(1, None, None))", "add")}
              or {x[1] for x in ups} == {"add"} and len(ups) == 2, R, fi,
              "explicit vector field: two additive axial contributions", f"{[(s, o) for s, o, _ in ups]}",
              f"axial contributions are {[(s, o) for s, o, _ in ups]}", node=fi.node)
    for s, o, v in ups:
        txt = v.pretty()
        up = "uppers" if ":-1" in s.replace(" ", "") or "slice(None, -1" in s else "lowers"
    # structural: (v[:,1:] - v[:,:-1]) * uppers at [:, :-1]; (v[:,:-1] - v[:,1:]) * lowers at [:, 1:]
    srcs = [unparse(n) for n in ast.walk(fi.node) if isinstance(n, ast.Call) and isinstance(n.func, ast.Attribute) and n.func.attr == "add"]
    want_src = {"vecfield.at[:, :-1].add((voltages[:, 1:] - voltages[:, :-1]) * uppers)",
                "vecfield.at[:, 1:].add((voltages[:, :-1] - voltages[:, 1:]) * lowers)"}
    ok = _axial_terms_ok(fi, repo)
    col.check(ok, R, fi, "explicit vector field: (v_neighbour - v_self) * g into the row of self",
              "row i receives g_up*(v[i+1]-v[i]) and g_low*(v[i-1]-v[i])",
              f"axial terms are {srcs}", node=fi.node)
    # uppers/lowers selection, on the normal form of the returned value (helpers inlined, conditionals lifted): the
    # rows [:, :-1] (compartment i, neighbour i+1) receive the conductances of the edges with source > sink, the rows
    # [:, 1:] those with source < sink
    nt = idxm.norm(repo, fi, ex.returns[-1])
    while nt.op == "ifexp":
        nt = nt.args[1]
    found = {}
    cur = nt
    while cur.op == "mcall" and cur.name in ("add", "set") and cur.args[0].op == "sub" and cur.args[0].args[0].op == "attr" \
            and cur.args[0].args[0].name == "at":
        sl = cur.args[0].args[1]
        rows = None
        if sl.op == "tuple" and len(sl.args) == 2 and sl.args[1].op == "slice":
            lo, hi, _st = sl.args[1].args
            if hi.op == "unary" and hi.name == "USub" and hi.args[0].op == "const" and hi.args[0].name == 1 and lo.op == "const" and lo.name is None:
                rows = "self=i,neighbour=i+1"
            elif lo.op == "const" and lo.name == 1 and hi.op == "const" and hi.name is None:
                rows = "self=i,neighbour=i-1"
        sel = None
        for x in cur.args[1].walk():
            if x.op == "cmp" and x.name in (">", "<") and len(x.args) == 2:
                l = T.find(x.args[0], lambda y: y.op == "param" and y.name in ("sources", "sinks"))
                r_ = T.find(x.args[1], lambda y: y.op == "param" and y.name in ("sources", "sinks"))
                if l is not None and r_ is not None and l.name != r_.name:
                    src_gt = (x.name == ">") == (l.name == "sources")
                    sel = "src>snk" if src_gt else "src<snk"
        found[rows] = sel
        cur = cur.args[0].args[0].args[0]
    want_sel = {"self=i,neighbour=i+1": "src>snk", "self=i,neighbour=i-1": "src<snk"}
    if set(found) != set(want_sel) or None in found.values():
        col.unk(R, fi, "explicit: edge selection of the two axial contributions", f"could not identify rows/selectors: {found}", node=fi.node)
    else:
        col.check(found == want_sel, R, fi, "explicit: source > sink feeds the rows whose neighbour is i+1, source < sink those whose neighbour is i-1",
                  str(found), f"edge selection is {found}: each compartment uses the coupling conductance computed for its other neighbour "
                              f"(wrong whenever neighbouring compartments differ in radius, length or resistivity)", node=fi.node)
    # step_voltage_explicit: v + dt*update
    se = repo.func(SV, "step_voltage_explicit")
    exs = idxm.expander(repo, se)
    r = exs.returns[-1] if exs.returns else None
    s = T.find(r, lambda x: x.op == "binop" and x.name == "+") if r else None
    ok = False
    if s is not None:
        a, b_ = s.args
        ok = T.find(a, lambda x: x.op == "param" and x.name == "voltages") is not None and b_.op == "binop" and b_.name == "*" and \
            {y.name for y in b_.args if y.op == "param"} == {"delta_t"} and \
            T.find(b_, lambda x: x.op == "call" and x.name == "_voltage_vectorfield") is not None
    col.check(ok, R, se, "forward Euler: v + dt * f(v)", "voltages + delta_t * update",
              f"returns {r.short() if r else None}", node=se.node)


def _signed_difference(val):
    """val == (a - b) * g with a, b slices of `voltages`, whatever the spelling of the sign: `-(b - a) * g`, `g * (a - b)`, `-((b - a) * g)`.
    Returns (a - b as a term, g) or None."""
    sgn = 1
    while val.op == "unary" and val.name == "USub":
        sgn, val = -sgn, val.args[0]
    if not (val.op == "binop" and val.name == "*" and len(val.args) == 2):
        return None
    fs = []
    for f in val.args:
        while f.op == "unary" and f.name == "USub":
            sgn, f = -sgn, f.args[0]
        fs.append(f)
    is_v = lambda a_: a_.op == "sub" and a_.args[0].op == "param" and a_.args[0].name == "voltages"
    d = next((f for f in fs if f.op == "binop" and f.name == "-" and len(f.args) == 2 and all(is_v(a_) for a_ in f.args)), None)
    if d is None:
        return None
    g = fs[1] if fs[0] is d else fs[0]
    if sgn < 0:
        d = T("binop", "-", [d.args[1], d.args[0]], node=d.node)
    return d, g


def _axial_terms_ok(fi, repo=None) -> bool:
    """vecfield.at[:, :-1].add((v[:, 1:] - v[:, :-1]) * uppers) and the mirrored lower term -- on the defining terms, in any spelling
    of the signed difference"""
    if repo is not None:
        ex = idxm.expander(repo, fi)
        t = ex.returns[-1] if ex.returns else None
        found = set()
        while t is not None and t.op == "mcall" and t.name in ("add", "set") and t.args and t.args[0].op == "sub" and \
                t.args[0].args[0].op == "attr" and t.args[0].args[0].name == "at":
            sl, val = t.args[0].args[1], (t.args[1] if len(t.args) > 1 else None)
            sd = _signed_difference(val) if (val is not None and t.name == "add") else None
            if sd is not None:
                key = lambda z: z.pretty().replace(" ", "")
                me, nb, own = key(sl), key(sd[0].args[0].args[1]), key(sd[0].args[1].args[1])
                if own == me and nb != me:
                    found.add(me)
            t = t.args[0].args[0].args[0]
        return len(found) == 2
    return _axial_terms_ok_src(fi)


def _axial_terms_ok_src(fi) -> bool:
    """vecfield.at[:, :-1].add((v[:, 1:] - v[:, :-1]) * uppers) and the mirrored lower term."""
    found = {"upper": False, "lower": False}
    for n in ast.walk(fi.node):
        if isinstance(n, ast.Call) and isinstance(n.func, ast.Attribute) and n.func.attr == "add" and \
                isinstance(n.func.value, ast.Subscript):
            sl = unparse(n.func.value.slice).replace(" ", "").strip("()")
            arg = n.args[0]
            if not (isinstance(arg, ast.BinOp) and isinstance(arg.op, ast.Mult)):
                continue
            fac = [arg.left, arg.right]
            diff = next((x for x in fac if isinstance(x, ast.BinOp) and isinstance(x.op, ast.Sub)), None)
            g = next((x for x in fac if isinstance(x, ast.Name)), None)
            if diff is None or g is None:
                continue
            l, r = unparse(diff.left).replace(" ", ""), unparse(diff.right).replace(" ", "")
            # (which conductances multiply which difference is decided by R-C01-explicit on the defining terms, not on the local's name)
            if sl == ":,:-1" and l == "voltages[:,1:]" and r == "voltages[:,:-1]":
                found["upper"] = True
            if sl == ":,1:" and l == "voltages[:,:-1]" and r == "voltages[:,1:]":
                found["lower"] = True
    return all(found.values())


# --------------------------------------------------------------------------------------


ELIM = {
    # name -> (index vars, oracle updates {array: (index, op, formula)})
    "_eliminate_children_lower": {
        "branchpoint_diags": ("cil.col1", "add", "-(wc/d)*kc"),
        "branchpoint_solves": ("cil.col1", "add", "-(wc/d)*s"),
        "branchpoint_weights_children": ("cil.col0", "set", "0"),
        "_atoms": {"wc": "branchpoint_weights_children@cil.col0", "kc": "branchpoint_conds_children@cil.col0",
                   "d": "diags@first(cil.col0)", "s": "solves@first(cil.col0)"},
        "_why": "eliminate the child's weight in the branch-point row with the child's first row (d; kc | s)",
    },
    "_eliminate_parents_upper": {
        "diags": ("last(pil.col0)", "add", "-(kp/D)*wp"),
        "solves": ("last(pil.col0)", "add", "-(kp/D)*S"),
        "branchpoint_conds_parents": ("pil.col0", "set", "0"),
        "_atoms": {"kp": "branchpoint_conds_parents@pil.col0", "wp": "branchpoint_weights_parents@pil.col0",
                   "D": "branchpoint_diags@pil.col1", "S": "branchpoint_solves@pil.col1"},
        "_why": "eliminate the branch-point entry of the parent's last row with the branch-point row (D; wp | S)",
    },
    "_eliminate_parents_lower": {
        "branchpoint_solves": ("pil.col1", "add", "-(wp/d)*s"),
        "branchpoint_weights_parents": ("pil.col0", "set", "0"),
        "_atoms": {"wp": "branchpoint_weights_parents@pil.col0", "d": "diags@last(pil.col0)", "s": "solves@last(pil.col0)"},
        "_why": "substitute the solved parent voltage s/d into the branch-point row",
    },
    "_eliminate_children_upper": {
        "solves": ("first(cil.col0)", "add", "-(kc/D)*S"),
        "branchpoint_conds_children": ("cil.col0", "set", "0"),
        "_atoms": {"kc": "branchpoint_conds_children@cil.col0", "D": "branchpoint_diags@cil.col1", "S": "branchpoint_solves@cil.col1"},
        "_why": "substitute the solved branch-point voltage S/D into the child's first row",
    },
}


def _elim(repo, col, R="R-C01-elim"):
    for fname, spec in ELIM.items():
        fi = repo.func(SV, fname)
        ev = _arr_eval(repo)
        try:
            res = ev.call(fi, _abstract_args(fi))
        except Und as e:
            col.unk(R, fi, fname, f"outside the analysable fragment: {e}", node=fi.node)
            continue
        if not isinstance(res, tuple):
            col.unk(R, fi, fname, "does not return a tuple of arrays", node=fi.node)
            continue
        got = {}
        for a in res:
            if isinstance(a, ArrV):
                got.setdefault(a.role, a)
        env = {k: PW.of(Rat.atom(v)) for k, v in spec["_atoms"].items()}
        for arr, triple in spec.items():
            if arr.startswith("_"):
                continue
            wix, wop, wtxt = triple
            a = got.get(arr)
            if a is None:
                col.bad(R, fi, f"{fname}: update of {arr}", f"`{arr}` is not returned/updated; needed to {spec['_why']}", node=fi.node)
                continue
            ups = [(ix, op, rat_of(v), n) for ix, op, v, n in a.updates]
            wv = parse_ref(ev, wtxt, env)
            ok = len(ups) == 1 and ups[0][0] == wix and ups[0][1] == wop and ups[0][2].eq(wv)
            col.check(ok, R, fi, f"{fname}: update of {arr}",
                      f"{wop} {wtxt} at {wix}: {spec['_why']}",
                      f"`{arr}` is updated by {[(u[0], u[1], repr(u[2])) for u in ups]}; the Gaussian row operation "
                      f"that would {spec['_why']} is `{wop} {wtxt}` at {wix} (with {spec['_atoms']})",
                      node=ups[0][3] if ups else fi.node)
        # no other array may be modified
        for role, a in got.items():
            if role not in spec and a.updates:
                col.bad(R, fi, f"{fname}: unexpected update of {role}", f"{_fmt_table(a)}", node=a.updates[0][3])


# --------------------------------------------------------------------------------------


def _calls_in(body):
    out = []
    for st in body:
        for n in ast.walk(st):
            if isinstance(n, ast.Call) and isinstance(n.func, ast.Name):
                out.append(n)
                break
    return out


def _stmt_containing(loop, node):
    """the statement of the loop body that contains `node`"""
    for st in ast.walk(loop):
        if isinstance(st, ast.stmt) and st is not loop and any(x is node for x in ast.walk(st)) and \
                not any(isinstance(ch, ast.stmt) and any(x is node for x in ast.walk(ch)) for ch in ast.iter_child_nodes(st)):
            return st
    return None


def _level_loop(ex, lp):
    """(iteration term, names of the loop variables) of the level loop.  An index loop
    `for k in range(len(A) - 1, -1, -1): a, b = A[k], B[k]; ...` is read as `for a, b in zip(reversed(A), reversed(B))`
    (`range(len(A))` / `reversed(range(len(A)))` likewise), provided the counter is used for nothing else."""
    it = ex.term(lp.iter)
    tgt = [unparse(x) for x in lp.target.elts] if isinstance(lp.target, ast.Tuple) else []
    if not (isinstance(lp.target, ast.Name) and lp.body):
        return it, tgt
    k = lp.target.id
    pairs = []
    for st in lp.body:
        if not isinstance(st, ast.Assign) or len(st.targets) != 1:
            break
        t_, v_ = st.targets[0], st.value
        ps = list(zip(t_.elts, v_.elts)) if isinstance(t_, ast.Tuple) and isinstance(v_, ast.Tuple) and len(t_.elts) == len(v_.elts) else [(t_, v_)]
        if not all(isinstance(a_, ast.Name) and isinstance(b_, ast.Subscript) and isinstance(b_.slice, ast.Name) and b_.slice.id == k for a_, b_ in ps):
            break
        pairs += ps
    uses = sum(1 for n in ast.walk(lp) if isinstance(n, ast.Name) and n.id == k and isinstance(n.ctx, ast.Load))
    if not pairs or uses != len(pairs):
        return it, tgt
    seqs = [unparse(b_.value) for _a, b_ in pairs]
    r = lp.iter
    rev = False
    if isinstance(r, ast.Call) and isinstance(r.func, ast.Name) and r.func.id == "reversed" and len(r.args) == 1:
        rev, r = True, r.args[0]
    if not (isinstance(r, ast.Call) and isinstance(r.func, ast.Name) and r.func.id == "range" and not r.keywords):
        return it, tgt
    lens = {ex.term_of_source(f"len({q})", lp).key() for q in seqs}
    lens1 = {ex.term_of_source(f"len({q}) - 1", lp).key() for q in seqs}
    a = r.args
    m1 = lambda z: isinstance(z, ast.UnaryOp) and isinstance(z.op, ast.USub) and isinstance(z.operand, ast.Constant) and z.operand.value == 1
    if len(a) == 1 and ex.term(a[0]).key() in lens:
        pass
    elif len(a) == 2 and isinstance(a[0], ast.Constant) and a[0].value == 0 and ex.term(a[1]).key() in lens:
        pass
    elif len(a) == 3 and m1(a[1]) and m1(a[2]) and ex.term(a[0]).key() in lens1 and not rev:
        rev = True
    else:
        return it, tgt
    src = "zip(" + ", ".join(f"reversed({q})" if rev else q for q in seqs) + ")"
    return ex.term_of_source(src, lp), [a_.id for a_, _b in pairs]


def _schedule(repo, col, R="R-C01-schedule"):
    for fname, want_rev, pre, loop_order, post in (
        ("_triang_branched", True, [], ["_triang_level", "_eliminate_children_lower", "_eliminate_parents_upper"], ["_triang_level"]),
        ("_backsub_branched", False, ["_backsub_level"], ["_eliminate_parents_lower", "_eliminate_children_upper", "_backsub_level"], []),
    ):
        fi = repo.func(SV, fname)
        ex = idxm.expander(repo, fi)
        loops = [st for st in fi.node.body if isinstance(st, ast.For)]
        if len(loops) != 1:
            col.unk(R, fi, fname, "expected exactly one loop over the levels", node=fi.node)
            continue
        lp = loops[0]
        i = fi.node.body.index(lp)
        it, tgt_names = _level_loop(ex, lp)
        # zip(children, parents) both reversed (or both not)
        ok_zip = it.op == "call" and it.name == "zip" and len(it.args) == 2

        def unwrap(t):
            if t.op == "call" and t.name == "reversed":
                return True, t.args[0]
            if t.op == "sub" and t.args[1].op == "slice" and t.args[1].args[2].op == "unary":
                return True, t.args[0]
            return False, t

        if not ok_zip:
            col.unk(R, fi, f"{fname}: level loop", f"iterates {it.short()}", node=lp)
            continue
        (r0, a0), (r1, a1) = unwrap(it.args[0]), unwrap(it.args[1])
        col.check(r0 == r1 == want_rev, R, fi, f"{fname}: levels visited {'deepest' if want_rev else 'shallowest'} first",
                  "reversed(...) on both lists" if want_rev else "both lists in level order",
                  f"{fname} must visit the levels {'from the leaves to the root' if want_rev else 'from the root to the leaves'}; "
                  f"it iterates {it.short(120)}", node=lp)
        names = (a0.name if a0.op == "attr" else None, a1.name if a1.op == "attr" else None)
        tgt = tgt_names
        # the loop variables by what they are bound to (whatever they are called)
        kind_of = {}
        if len(tgt) == 2 and set(names) == {"children_in_level", "parents_in_level"}:
            kind_of = {tgt[k]: ("children" if names[k] == "children_in_level" else "parents") for k in range(2)}
        cvar = next((v for v, k in kind_of.items() if k == "children"), None)
        pvar = next((v for v, k in kind_of.items() if k == "parents"), None)
        col.check(cvar is not None and pvar is not None, R, fi,
                  f"{fname}: the level loop binds one variable to children_in_level and one to parents_in_level", "zip(children_in_level, parents_in_level)",
                  f"loop binds {tgt} to {names}", node=lp)
        order = [c.func.id for c in _calls_in(lp.body) if c.func.id.startswith(("_triang", "_backsub", "_eliminate"))]
        col.check(order == loop_order, R, fi, f"{fname}: per-level order", " -> ".join(loop_order),
                  f"per-level order is {' -> '.join(order)}, required {' -> '.join(loop_order)}", node=lp)
        pre_calls = [c.func.id for c in _calls_in(fi.node.body[:i]) if c.func.id.startswith(("_triang", "_backsub", "_eliminate"))]
        post_calls = [c.func.id for c in _calls_in(fi.node.body[i + 1:]) if c.func.id.startswith(("_triang", "_backsub", "_eliminate"))]
        col.check(pre_calls == pre and post_calls == post, R, fi, f"{fname}: roots handled {'last' if want_rev else 'first'}",
                  f"before loop {pre}, after loop {post}", f"before the loop: {pre_calls}, after: {post_calls}; required {pre} / {post}",
                  node=fi.node)
        # level calls use the branch column of cil; root call uses idx.root_inds
        for c in [n for n in ast.walk(fi.node) if isinstance(n, ast.Call) and isinstance(n.func, ast.Name)
                  and n.func.id in ("_triang_level", "_backsub_level")]:
            a = unparse(c.args[0])
            inloop = any(c is x for x in ast.walk(lp))
            # compared on the defining terms: column 0 of the loop's children list / the indexer's root branches
            at_ = ex.term(c.args[0])
            if inloop and cvar is not None:
                want_t = ex.term_of_source(f"{cvar}[:, 0]", _stmt_containing(lp, c))
            else:
                want_t = ex.term_of_source("idx.root_inds", None)
            col.check(at_.key() == want_t.key(), R, fi,
                      f"{fname}: {c.func.id} on {'the child branches of the level' if inloop else 'the root branches'}",
                      "children's branches inside the loop, roots outside",
                      f"{c.func.id} is applied to `{a}` {'inside' if inloop else 'outside'} the level loop", node=c)
        # each elimination receives the list of its own kind
        for c in [n for n in ast.walk(lp) if isinstance(n, ast.Call) and isinstance(n.func, ast.Name) and n.func.id.startswith("_eliminate")]:
            want_arg = cvar if "children" in c.func.id else pvar
            col.check(unparse(c.args[0]) == want_arg, R, fi,
                      f"{fname}: {c.func.id} receives the {'children' if 'children' in c.func.id else 'parents'} of the level", str(want_arg),
                      f"{c.func.id} receives `{unparse(c.args[0])}` ({kind_of.get(unparse(c.args[0]), 'not a level list')})", node=c)
            cf = repo.func(SV, c.func.id)
            argn = [unparse(x) for x in c.args]
            swapped = [(p, a_) for p, a_ in zip(cf.params[1:], argn[1:]) if a_ != p and a_ in cf.params]
            col.check(not swapped, R, fi, f"{fname}: {c.func.id} arguments in their roles", "names match",
                      f"{c.func.id} receives {swapped} (an argument bound to another parameter's role)", node=c)
        # results are threaded: the tuple assigned from each call is named like the callee's return
        for st in lp.body + fi.node.body[:i] + fi.node.body[i + 1:]:
            if isinstance(st, ast.Assign) and isinstance(st.value, ast.Call) and isinstance(st.value.func, ast.Name):
                cf = repo.mods[SV].functions.get(st.value.func.id)
                if cf is None:
                    continue
                rets = [n for n in walk_no_nested(cf.node) if isinstance(n, ast.Return)]
                if not rets or not isinstance(rets[-1].value, ast.Tuple):
                    continue
                rn = [unparse(x) for x in rets[-1].value.elts]
                tn = [unparse(x) for x in (st.targets[0].elts if isinstance(st.targets[0], ast.Tuple) else [st.targets[0]])]
                col.check(rn == tn, R, fi, f"{fname}: results of {cf.name} bound in order", f"{tn}",
                          f"{cf.name} returns {rn} but the caller binds them to {tn}", node=st)
    # triangulation / back-substitution kernels on the level
    for fname, kernels in (("_triang_level", {"jaxley.stone": "stone_triang_upper", "jaxley.thomas": "thomas_triang_upper"}),
                           ("_backsub_level", {"jaxley.stone": "stone_backsub_lower", "jaxley.thomas": "thomas_backsub_lower"})):
        fi = repo.func(SV, fname)
        got = {}
        node = fi.node
        # the kernel that vmap receives, specialised to each solver name (whatever the if/elif/else arrangement is)
        exk = idxm.expander(repo, fi)
        sp_ = next((p_ for p_ in fi.params if "solver" in p_), None)
        kc_ = next((n for n in walk_no_nested(fi.node) if isinstance(n, ast.Call) and isinstance(n.func, ast.Call) and
                    unparse(n.func.func).split(".")[-1] == "vmap" and n.func.args), None)
        kt_ = exk.term(kc_.func.args[0]) if kc_ is not None else None
        if kt_ is None:
            # the vmapped application sits in a local helper: taken from the (inlined) terms of the function
            for t_ in [s_.value for s_ in exk.stores if s_.value is not None] + list(exk.returns):
                vm_ = T.find(t_, lambda x: x.op == "callv" and x.args and x.args[0].op in ("call", "mcall") and x.args[0].name == "vmap")
                if vm_ is not None:
                    kt_ = next((a_ for a_ in vm_.args[0].args if a_.op != "free" or a_.name not in ("jax",)), None)
                    break
        if kt_ is not None and sp_ is not None:
            for nm_ in sorted(idxm.constants_compared_with(fi.node, sp_), key=str):
                v_ = idxm.specialise(kt_, sp_, nm_)
                while v_.op == "phi" and len([a_ for a_ in v_.args if a_.op not in ("undef", "carried")]) == 1:
                    v_ = next(a_ for a_ in v_.args if a_.op not in ("undef", "carried"))
                if v_.op in ("free", "name", "global"):
                    got[nm_] = v_.name
        col.check(got == kernels, R, fi, f"{fname}: kernel per solver name", str(got), f"kernels are {got}, expected {kernels}", node=node)
        _level_io(repo, col, fi, R)
        if fname == "_backsub_level":
            # the rows of a back-substituted level are SOLVED (solves holds x): their diagonal is handed on as 1, for every compartment
            # of the level's branches -- the next level divides by diags[last(parent)] when it eliminates the parents' lower couplings
            r_ = exk.merged_return() if len(exk.returns) != 1 else exk.returns[0]
            dg = None
            if r_ is not None and r_.op == "tuple":
                dg = next((a_ for a_ in r_.args if T.find(a_, lambda x: x.op == "param" and x.name == "diags") is not None and
                           T.find(a_, lambda x: x.op == "param" and x.name in ("solves", "lowers")) is None), None)
            if dg is None:
                col.unk(R, fi, f"{fname}: the diagonal of the solved rows is handed on as 1", "returned diagonal not found", node=node)
            else:
                lvl = next((p_ for p_ in fi.params if p_ not in ("diags", "lowers", "solves", "uppers", "idx") and "solver" not in p_), None)
                ok_ = dg.op == "mcall" and dg.name == "set" and len(dg.args) == 2 and dg.args[1].op == "const" and dg.args[1].name in (1, 1.0) and \
                    dg.args[0].op == "sub" and dg.args[0].args[0].op == "attr" and dg.args[0].args[0].name == "at" and \
                    dg.args[0].args[0].args[0].op == "param" and dg.args[0].args[0].args[0].name == "diags" and \
                    dg.args[0].args[1].op == "mcall" and dg.args[0].args[1].name == "branch" and \
                    T.find(dg.args[0].args[1], lambda x: x.op == "param" and x.name == lvl) is not None
                col.check(ok_, R, fi, f"{fname}: the diagonal of the solved rows is handed on as 1, for every compartment of the level", "diags.at[idx.branch(level)].set(1.0)",
                          f"the diagonal is returned as {dg.short(110)}: the parents' rows keep their triangulated diagonal (at least the first compartment of each "
                          f"branch), and the next level computes solves[last(parent)] / diags[last(parent)] with it -- wrong whenever a parent branch has one "
                          f"compartment", node=node)


def _level_io(repo, col, fi, R="R-C01-schedule"):
    """Gathers / scatters of one level use branch/lower/upper consistently."""
    ev = _arr_eval(repo)
    args = _abstract_args(fi)
    calls = {}
    gathers = []
    for n in ast.walk(fi.node):
        if isinstance(n, ast.Subscript) and isinstance(n.value, ast.Name) and isinstance(n.slice, ast.Call) and \
                isinstance(n.slice.func, ast.Attribute) and isinstance(n.slice.func.value, ast.Name) and n.slice.func.value.id == "idx":
            gathers.append((n.value.id, n.slice.func.attr, unparse(n.slice.args[0])))
    want = {"lowers": "lower", "uppers": "upper", "diags": "branch", "solves": "branch"}
    bad = [(a, m) for a, m, _x in gathers if want.get(a) != m]
    col.check(not bad and gathers, R, fi, f"{fi.name}: arrays gathered with their own accessor",
              f"{sorted(set((a, m) for a, m, _ in gathers))}",
              f"{fi.name} gathers {bad}; required lowers->lower, uppers->upper, diags/solves->branch", node=fi.node)
    sc = []
    for n in ast.walk(fi.node):
        if isinstance(n, ast.Call) and isinstance(n.func, ast.Attribute) and n.func.attr == "set" and \
                isinstance(n.func.value, ast.Subscript) and isinstance(n.func.value.value, ast.Attribute):
            arr = unparse(n.func.value.value.value)
            sl = n.func.value.slice
            if isinstance(sl, ast.Call) and isinstance(sl.func, ast.Attribute):
                sc.append((arr, sl.func.attr))
    bad = [(a, m) for a, m in sc if want.get(a) != m]
    col.check(not bad and sc, R, fi, f"{fi.name}: results scattered with the accessor they were gathered with",
              f"{sorted(set(sc))}", f"{fi.name} scatters {bad}", node=fi.node)
    # the results REPLACE the level's entries: `.at[...].add(...)` would add the new row to the old one
    adds = [n for n in ast.walk(fi.node) if isinstance(n, ast.Call) and isinstance(n.func, ast.Attribute) and n.func.attr in ("add", "multiply", "mul") and
            isinstance(n.func.value, ast.Subscript) and isinstance(n.func.value.value, ast.Attribute) and n.func.value.value.attr == "at" and
            unparse(n.func.value.value.value) in want]
    col.check(not adds, R, fi, f"{fi.name}: eliminated / solved entries overwrite the level's entries", ".at[...].set(...)",
              f"`{unparse(adds[0])[:70] if adds else ''}` accumulates onto the old entries instead of replacing them", node=adds[0] if adds else fi.node)
    # the kernel receives (lower, diag, upper, solve) / (solve, lower, diag) in the order of ITS signature (third-party tridiax,
    # read from the installed package; fallback: the documented order)
    sigs = {"triang": ["lower", "diag", "upper", "solve"], "backsub": ["solve", "lower", "diag"]}
    try:
        import inspect
        from tridiax.thomas import thomas_triang_upper as _tt, thomas_backsub_lower as _tb
        from tridiax.stone import stone_triang_upper as _st, stone_backsub_lower as _sb
        pt, ps = list(inspect.signature(_tt).parameters), list(inspect.signature(_st).parameters)
        bt, bs = list(inspect.signature(_tb).parameters), list(inspect.signature(_sb).parameters)
        if pt[:4] == ps[:4] and bt[:3] == bs[:3]:
            sigs = {"triang": pt[:4], "backsub": bt[:3]}
        col.info["tridiax_signatures"] = {"triang": pt, "backsub": bt}
    except Exception:
        col.info["tridiax_signatures"] = "package not importable; documented order used"
    kind = "triang" if "triang" in fi.name else "backsub"
    kc = next((n for n in ast.walk(fi.node) if isinstance(n, ast.Call) and isinstance(n.func, ast.Call) and
               unparse(n.func.func).split(".")[-1] == "vmap" and n.func.args and isinstance(n.func.args[0], ast.Name) and
               n.func.args[0].id not in fi.params), None)   # the kernel chosen per solver name, whatever the local is called
    if kc is None:
        col.unk(R, fi, f"{fi.name}: kernel call", "vmap(<kernel>)(...) not found", node=fi.node)
    else:
        got = []
        for a_ in kc.args:
            root = a_.value.id if (isinstance(a_, ast.Subscript) and isinstance(a_.value, ast.Name)) else (a_.id if isinstance(a_, ast.Name) else "?")
            got.append(root.rstrip("s") if root.endswith("s") else root)
        col.check(got == sigs[kind], R, fi, f"{fi.name}: kernel arguments follow the kernel's signature {tuple(sigs[kind])}", str(got),
                  f"the kernel is called with ({', '.join(got)}) but its parameters are ({', '.join(sigs[kind])}): the bands of the "
                  f"tridiagonal system are interchanged", node=kc)


# --------------------------------------------------------------------------------------


def _ends(repo, col, R="R-C01-ends"):
    fi = repo.method("Cell", "_init_morph_jax_spsolve")
    ev = kin.new_eval(repo)
    obj = ObjV("Cell", {"cumsum_ncomp": SymArr("Cu", step="n"), "_par_inds": PW.of(Rat.atom("b")),
                        "_child_inds": PW.of(Rat.atom("b"))})
    ctx = {"mod": repo.mods[fi.file], "cls": "Cell", "defining_cls": "Cell"}
    found = {}
    for n in ast.walk(fi.node):
        if isinstance(n, ast.Dict):
            keys = [k.value if isinstance(k, ast.Constant) else None for k in n.keys]
            if "sink" in keys and "type" in keys:
                tv = n.values[keys.index("type")]
                sv = n.values[keys.index("sink")]
                if isinstance(tv, ast.Constant) and tv.value in (1, 2):
                    try:
                        val = rat_of(ev.ev(sv, {"self": obj}, ctx))
                    except Und as e:
                        col.unk(R, fi, f"type-{tv.value} sink", f"outside the analysable fragment: {e}", node=sv)
                        continue
                    found[tv.value] = (val, sv)
    if set(found) != {1, 2}:
        raise AnalysisError("Cell._init_morph_jax_spsolve: branch-point edge blocks (types 1, 2) not found")
    Cu, n_ = Rat.atom("Cu[b]"), Rat.atom("n[b]")
    v1, n1 = found[1]
    col.check(v1.eq(Cu + n_ - ONE), R, fi, "type-1 edge: branch point -> last compartment of the parent",
              "sink = cumsum_ncomp[parent + 1] - 1", f"type-1 sink is {v1}: not the last compartment Cu[b] + n[b] - 1 of the parent", node=n1)
    v2, n2 = found[2]
    col.check(v2.eq(Cu), R, fi, "type-2 edge: branch point -> first compartment of the child",
              "sink = cumsum_ncomp[child]", f"type-2 sink is {v2}: not the first compartment Cu[b] of the child", node=n2)
    # types 3/4 are the transposes of 1/2: a block `X.rename(columns={sink<->source})` retagged with its own type, X being the
    # type-1 / type-2 block -- on terms, whatever the temporaries are called
    exc = idxm.expander(repo, fi)
    dict_blocks = {}
    terms_ = [s_.value for s_ in exc.stores if s_.value is not None]
    for t_ in terms_:
        for x in t_.walk():
            if x.op == "dict":
                d = {kv.args[0].name: kv.args[1] for kv in x.args if kv.args and kv.args[0].op == "const"}
                if {"source", "sink", "type"} <= set(d) and d["type"].op == "const" and d["type"].name in (1, 2):
                    dict_blocks[d["type"].name] = (x, d)
    rev = []
    for s_ in exc.stores:
        if s_.kind == "sub" and s_.key.op == "const" and s_.key.name == "type" and s_.value.op == "const" and isinstance(s_.value.name, int):
            rn = s_.base if (s_.base.op == "mcall" and s_.base.name == "rename") else T.find(s_.base, lambda y: y.op == "mcall" and y.name == "rename")
            if rn is None:
                continue
            cols = rn.kw.get("columns")
            swap = cols is not None and cols.op == "dict" and \
                {(kv.args[0].name, kv.args[1].name) for kv in cols.args if kv.args[0].op == "const" and kv.args[1].op == "const"} == \
                {("sink", "source"), ("source", "sink")}
            inner = next((k_ for k_, (dt, _d) in dict_blocks.items() if T.find(rn.args[0], lambda y: y is dt or y.key() == dt.key()) is not None), None)
            rev.append((s_.value.name, swap, inner))
    ok = sorted(rev, key=str) == [(3, True, 1), (4, True, 2)]
    col.add(R, fi, "types 3/4 are the reversed type-1/2 edges", "DISCHARGED" if ok else ("VIOLATED" if len(rev) >= 2 else "UNDECIDED"),
            "rename sink<->source of the type-1 block tagged 3, of the type-2 block tagged 4" if ok else
            f"the compartment-to-branchpoint edges are built as {rev} (type tag, columns swapped, reversed block of type): they must be the "
            f"reversed branchpoint-to-compartment edges of the parent (3 <- 1) and of the child (4 <- 2)", node=fi.node)
    # branch-point node index: parents -> arange + offset, children -> child_belongs_to_branchpoint + offset
    from sa.termalg import term_rat as _trat

    def bp_leaf(x):
        if x.op == "mcall" and x.name == "arange" and len(x.args) == 2 and x.args[1].op == "call" and x.args[1].name == "len" and \
                x.args[1].args[0].op == "attr" and x.args[1].args[0].name == "_par_inds":
            return Rat.atom("k")
        if x.op == "attr" and x.name == "_child_belongs_to_branchpoint":
            return Rat.atom("bp_of_child")
        if x.op == "sub" and x.args[0].op == "attr" and x.args[0].name == "cumsum_ncomp" and ((x.args[1].op == "const" and x.args[1].name == -1) or
                 (x.args[1].op == "unary" and x.args[1].name == "USub" and x.args[1].args[0].op == "const" and x.args[1].args[0].name == 1)):
            return Rat.atom("N")
        return None
    try:
        s1 = _trat(dict_blocks[1][1]["source"], bp_leaf) if 1 in dict_blocks else None
        s2 = _trat(dict_blocks[2][1]["source"], bp_leaf) if 2 in dict_blocks else None
        ok = s1 is not None and s2 is not None and s1.eq(Rat.atom("k") + Rat.atom("N")) and s2.eq(Rat.atom("bp_of_child") + Rat.atom("N"))
        col.check(ok, R, fi, "branch-point node ids: k-th unique parent <-> branch point k, children by their parent's rank",
                  "source = N + k (parents), N + branch point of the child (children), N = number of compartments",
                  f"branch-point sources are {s1} (parents) and {s2} (children); expected N + k and N + bp_of_child", node=fi.node)
    except Und as e:
        col.unk(R, fi, "branch-point node ids", f"outside the analysable fragment: {e}", node=fi.node)
    # columns of children_in_level / parents_in_level: (branch, branch point)
    mfi = repo.func("jaxley/utils/cell_utils.py", "compute_morphology_indices_in_levels")
    exm = idxm.expander(repo, mfi)
    r = exm.returns[0] if exm.returns else None
    ok = False
    if r is not None and r.op == "dict":
        d = {kv.args[0].name: kv.args[1] for kv in r.args if kv.args[0].op == "const"}
        def cols(t):
            st = T.find(t, lambda x: x.op == "mcall" and x.name == "stack")
            if st is None or st.args[1].op != "list":
                return None
            return [a.pretty() for a in st.args[1].args]
        ok = cols(d.get("children")) == ["child_inds", "child_belongs_to_branchpoint"] and \
            cols(d.get("parents")) == ["par_inds", "jnp.arange(num_branchpoints)"] and \
            d["children"].op == "attr" and d["children"].name == "T"
    col.check(ok, R, mfi, "level tables have columns (branch, branch point)", "children: (child_inds, bp of parent); parents: (par_inds, arange)",
              f"returns {r.short(200) if r else None}", node=mfi.node)


# --------------------------------------------------------------------------------------


def _scheme(repo, col, R="R-C01-scheme"):
    fi = repo.method("Module", "step")
    ex = idxm.expander(repo, fi)
    fn = fi.node
    d = None
    for n in walk_no_nested(fn):
        if isinstance(n, ast.Assign) and isinstance(n.value, ast.Dict) and isinstance(n.targets[0], ast.Name) and \
                any(isinstance(k, ast.Constant) and k.value == "voltage_terms" for k in n.value.keys):
            d = n.value
            KW = n.targets[0].id   # the keyword dictionary of the steppers, whatever it is called
    if d is None:
        raise AnalysisError("Module.step: solver_kwargs not found")
    kw = {k.value: ex.term(v) for k, v in zip(d.keys, d.values) if isinstance(k, ast.Constant)}

    def is_param_sub(t, dname, key):
        return t.op == "sub" and t.args[0].op == "param" and t.args[0].name == dname and t.args[1].op == "const" and t.args[1].name == key

    col.check("voltages" in kw and is_param_sub(kw["voltages"], "u", "v"), R, fi, "voltages = u['v'] before the step",
              "old voltages", f"voltages is {kw.get('voltages').short() if 'voltages' in kw else None}", node=d)
    # voltage_terms = (v_terms + syn_v_terms) / cm ; constant_terms = (const + i_ext + syn_const) / cm, decided on the
    # algebraic form (sum order, one division or one per summand, a hoisted 1/cm ... are all the same form)
    current_terms(repo, col, R, fi, ex, kw, d)
    col.check("axial_conductances" in kw and is_param_sub(kw["axial_conductances"], "params", "axial_conductances"), R, fi,
              "axial_conductances = params['axial_conductances']", "", "axial conductances are not taken from params", node=d)
    # solver-specific kwargs and binding through **
    # the dictionary handed to the stepper: its display plus every `.update({...})` on it, each with the voltage_solver case it
    # runs in (polarity of the `voltage_solver == "jax.sparse"` guard, however the if/else is arranged)
    def sparse_case(guards):
        """True: only for jax.sparse, False: only for the other back ends, None: both"""
        for g in guards:
            neg = False
            while g.op == "not" or (g.op == "unary" and g.name == "Not"):
                neg, g = not neg, g.args[0]
            if g.op == "cmp" and g.name in ("==", "!=") and any(a_.op == "const" and a_.name == "jax.sparse" for a_ in g.args):
                v = g.name == "=="
                return (not v) if neg else v
        return None

    updates = [s_ for s_ in ex.stores if s_.kind == "mcall" and s_.key.name == "update" and isinstance(s_.node.func.value, ast.Name)
               and s_.node.func.value.id == KW and s_.node.args and isinstance(s_.node.args[0], ast.Dict)]
    # ... and every single-key assignment `solver_kwargs["k"] = v`
    singles = [n for n in walk_no_nested(fn) if isinstance(n, ast.Assign) and len(n.targets) == 1 and isinstance(n.targets[0], ast.Subscript) and
               isinstance(n.targets[0].value, ast.Name) and n.targets[0].value.id == KW and isinstance(n.targets[0].slice, ast.Constant)]
    if not updates and not singles:
        raise AnalysisError("Module.step: the solver_kwargs.update(...) calls were not found")
    base_keys = set(kw)
    keys_for = {True: set(base_keys), False: set(base_keys)}
    entries = [(None, k.value, v) for k, v in zip(d.keys, d.values) if isinstance(k, ast.Constant)]
    for s_ in updates:
        dn = s_.node.args[0]
        case = sparse_case(s_.guards)
        for k, v in zip(dn.keys, dn.values):
            if isinstance(k, ast.Constant):
                entries.append((case, k.value, v))
    for n in singles:
        gs = ex.stmt_guards.get(id(n))
        if gs is None:
            gs = ex.stmt_guards.get(n, [])
        entries.append((sparse_case([g for g in gs if isinstance(g, T)]), n.targets[0].slice.value, n.value))
    for case, k_, _v in entries:
        for c_ in ((True, False) if case is None else (case,)):
            keys_for[c_].add(k_)
    for is_sparse, target in ((True, "step_voltage_implicit_with_jax_spsolve"), (False, "step_voltage_implicit_with_jaxley_spsolve")):
        tf = repo.func(SV, target)
        need = set(tf.params)
        have = keys_for[is_sparse] | {"delta_t"}
        col.check(have == need, R, fi, f"solver_kwargs binds exactly the parameters of {target}",
                  f"{sorted(have)}", f"keys {sorted(have)} vs parameters {sorted(need)}: missing {sorted(need - have)}, "
                                     f"unexpected {sorted(have - need)}", node=d)
    # comp-edge columns go to the parameter of the same meaning
    colmap = {"sinks": "sink", "sources": "source", "types": "type"}
    for case, k_, v in entries:
        if k_ in colmap:
            vt = ex.term(v)
            okc = T.find(vt, lambda x: x.op == "sub" and x.args[0].op == "attr" and x.args[0].name == "_comp_edges" and
                         x.args[1].op == "const" and x.args[1].name == colmap[k_]) is not None
            col.check(okc, R, fi, f"{k_} <- _comp_edges['{colmap[k_]}'] ({'all' if case is None else ('jax.sparse' if case else 'custom solver')})",
                      vt.short(60), f"`{k_}` is filled from {vt.short(80)}", node=v)
    # which implicit stepper is selected: the callee of the implicit call, as a function of voltage_solver
    from sa.terms import canon as _canon
    sels = {}
    for s_ in ex.stores:
        if s_.kind == "sub" and s_.key.op == "const" and s_.key.name == "v" and s_.value is not None:
            for h in [x for x in s_.value.walk() if x.op == "callv"]:
                f_ = _canon(h.args[0])
                if f_.op == "ifexp" and sparse_case([f_.args[0]]) is not None:
                    pol = sparse_case([f_.args[0]])
                    a_, b_ = (f_.args[1], f_.args[2]) if pol else (f_.args[2], f_.args[1])
                    sels = {"jax.sparse": a_.name if a_.op in ("free", "name", "global") else a_.short(40),
                            "other": b_.name if b_.op in ("free", "name", "global") else b_.short(40)}
    col.check(sels == {"jax.sparse": "step_voltage_implicit_with_jax_spsolve", "other": "step_voltage_implicit_with_jaxley_spsolve"},
              R, fi, "implicit stepper per voltage_solver", str(sels), f"steppers are {sels}", node=fn)
    # the three schemes: the value that ends up in u["v"] for solver == name, for each of the three names -- obtained by
    # specialising the stored value(s) and the conditions they run under to that name, so that one if/elif chain with three
    # assignments, a merged branch with `delta_t if solver == "bwd_euler" else delta_t / 2`, or a local that is assigned once
    # after the chain are all the same program
    def truth(g, name):
        """truth value of a condition for solver == name; None if it is not about the solver"""
        neg = False
        while g.op == "not" or (g.op == "unary" and g.name == "Not"):
            neg, g = not neg, g.args[0]
        v = None
        if g.op == "bool":
            vs = [truth(a_, name) for a_ in g.args]
            if g.name == "Or":
                v = True if any(x is True for x in vs) else (False if all(x is False for x in vs) else None)
            else:
                v = False if any(x is False for x in vs) else (True if all(x is True for x in vs) else None)
        elif g.op == "cmp" and len(g.args) == 2 and any(a_.op == "param" and a_.name == "solver" for a_ in g.args):
            other = next(a_ for a_ in g.args if not (a_.op == "param" and a_.name == "solver"))
            if g.name in ("==", "!=") and other.op == "const":
                v = (other.name == name) == (g.name == "==")
            elif g.name in ("in", "not in") and other.op in ("list", "tuple", "set") and all(x.op == "const" for x in other.args):
                v = (name in {x.name for x in other.args}) == (g.name == "in")
        return None if v is None else (v != neg)

    def spec(t_, name):
        if t_.op == "ifexp":
            tv = truth(t_.args[0], name)
            if tv is True:
                return spec(t_.args[1], name)
            if tv is False:
                return spec(t_.args[2], name)
        if not t_.args and not t_.kw:
            return t_
        return T(t_.op, t_.name, [spec(a_, name) for a_ in t_.args], {k: spec(v_, name) for k, v_ in t_.kw.items()}, t_.node)
    clampish = lambda s_: s_.value.op == "mcall" and s_.value.name in ("set", "add") and s_.value.args and s_.value.args[0].op == "sub" and \
        s_.value.args[0].args[0].op == "attr" and s_.value.args[0].args[0].name == "at"   # the voltage clamp `u["v"].at[rows].set(...)`
    stores_v = [s_ for s_ in ex.stores if s_.kind == "sub" and s_.key.op == "const" and s_.key.name == "v" and s_.value is not None and not clampish(s_)]
    if not stores_v:
        raise AnalysisError("Module.step: no assignment of the new voltages u['v'] found")
    chain = stores_v[0].stmt
    values = {}
    for name in ("bwd_euler", "crank_nicolson", "fwd_euler"):
        act = [s_ for s_ in stores_v if all(truth(g, name) is not False for g in s_.guards)]
        if len(act) == 1:
            values[name] = spec(act[0].value, name)
        else:
            col.bad(R, fi, f"solver '{name}' runs exactly one voltage update", f"{len(act)} assignments of u['v'] are active for solver == '{name}'", node=chain)
    col.check(set(values) == {"bwd_euler", "crank_nicolson", "fwd_euler"}, R, fi, "the three schemes are dispatched by name",
              str(sorted(values)), f"dispatch covers {sorted(values)}", node=chain)

    def is_implicit(ct):
        c0 = _canon(ct.args[0]) if ct.op == "callv" else ct
        names_ = {x.name for x in c0.walk() if x.op in ("free", "name", "global", "localfn")} if ct.op == "callv" else ({ct.name} if ct.op == "call" else set())
        return bool(names_) and names_ <= {"step_voltage_implicit_with_jax_spsolve", "step_voltage_implicit_with_jaxley_spsolve"}

    def is_dt(t_):
        return t_ is not None and t_.op == "param" and t_.name == "delta_t"

    def is_half_dt(t_):
        if t_ is None or t_.op != "binop":
            return False
        if t_.name == "/":
            return is_dt(t_.args[0]) and t_.args[1].op == "const" and t_.args[1].name == 2
        return t_.name == "*" and {str(x.name) for x in t_.args} == {"delta_t", "0.5"}
    star = lambda ct: ct.kw.get("**") is not None
    v = values.get("bwd_euler")
    if v is not None:
        ok = v.op in ("callv", "call") and is_implicit(v) and is_dt(v.kw.get("delta_t")) and star(v)
        col.check(ok, R, fi, "bwd_euler: v' = implicit(dt)", "step_voltage_implicit(**solver_kwargs, delta_t=delta_t)",
                  f"for solver == 'bwd_euler' the new voltages are {v.short(160)}", node=chain)
    v = values.get("fwd_euler")
    if v is not None:
        ok = v.op == "call" and v.name == "step_voltage_explicit" and is_dt(v.kw.get("delta_t")) and star(v)
        col.check(ok, R, fi, "fwd_euler: v' = explicit(dt)", "step_voltage_explicit(**solver_kwargs, delta_t=delta_t)",
                  f"for solver == 'fwd_euler' the new voltages are {v.short(160)}", node=chain)
    v = values.get("crank_nicolson")
    if v is not None:
        h = T.find(v, lambda x: x.op in ("callv", "call") and (is_implicit(x) or (x.op == "call" and x.name == "step_voltage_explicit")))
        ok, detail = False, v.short(200)
        if h is not None:
            half = is_implicit(h) and is_half_dt(h.kw.get("delta_t")) and star(h)
            form = _linform(v, h)
            ok = half and form == {"h": Fr(2), "v": Fr(-1)}
            detail += f" ; combination {form}, half implicit step {half}"
        col.check(ok, R, fi, "crank_nicolson: v' = 2*implicit(dt/2) - v", "half implicit step, then the explicit half by reflection",
                  f"for solver == 'crank_nicolson' the new voltages are {detail}", node=chain)
    # unknown solver raises: a raise statement that is reachable for none of the three names
    rz = [n_ for n_ in ast.walk(fn) if isinstance(n_, ast.Raise) and
          all(any(truth(g, nm_) is False for g in ex.stmt_guards.get(id(n_), ())) for nm_ in ("bwd_euler", "crank_nicolson", "fwd_euler")) and
          any(truth(g, "bwd_euler") is not None for g in ex.stmt_guards.get(id(n_), ()))]
    col.check(bool(rz), R, fi, "unknown solver raises", "ValueError", "an unknown solver name does not raise", node=chain)


def current_terms(repo, col, R, fi, ex, kw, node):
    from sa.termalg import term_rat, coefficient
    from sa.algebra import Rat

    def leaf(x):
        if x.op == "ifexp" and T.find(x.args[1], lambda y: y.op == "mcall" and y.name == "_get_external_input") is not None:
            return term_rat(x.args[1], leaf)
        if x.op == "mcall" and x.name == "_get_external_input":
            return Rat.atom("i_ext")
        if x.op == "item" and x.args[0].op == "item":
            c = x.args[0].args[0]
            if c.op == "mcall" and c.name in ("_step_channels", "_step_synapse"):
                return Rat.atom(f"{'chan' if c.name == '_step_channels' else 'syn'}_{x.args[0].name}_{x.name}")
        if x.op == "sub" and x.args[0].op == "param" and x.args[0].name == "params" and x.args[1].op == "const":
            return Rat.atom("p_" + str(x.args[1].name))
        return None

    inv_cm = Rat.const(1) / Rat.atom("p_capacitance")
    for key, want in (("voltage_terms", {"chan_1_0", "syn_1_0"}), ("constant_terms", {"chan_1_1", "syn_1_1", "i_ext"})):
        t = kw.get(key)
        if t is None:
            col.bad(R, fi, f"{key} is handed to the voltage solver", f"`{key}` is missing from the solver arguments", node=node)
            continue
        try:
            form = term_rat(t, leaf)
        except Und as e:
            col.unk(R, fi, key, f"outside the analysable fragment: {e}", node=node)
            continue
        atoms = {a for a in form.atoms() if a != "p_capacitance"}
        bad = []
        for a in sorted(want | atoms):
            co = coefficient(form, a) if a in atoms else None
            if a not in want:
                bad.append(f"unexpected term {a[:60]}")
            elif co is None or not co.eq(inv_cm):
                bad.append(f"coefficient of {a} is {co} (expected 1/capacitance)")
        col.check(not bad, R, fi, f"{key} = (channel + synapse{' + stimulus' if 'i_ext' in want else ''} terms) / capacitance",
                  f"every one of {sorted(want)} has coefficient 1/params['capacitance']",
                  f"{key} is {t.short(140)}: " + "; ".join(bad) + " -- (uA/cm^2)/(uF/cm^2) = mV/ms requires every current term "
                  f"divided by the capacitance, nothing else", node=node)


def _linform(t: T, h: T):
    """Coefficients of t as a linear combination of h (the half step) and u['v'] (old voltages)."""
    def lin(x):
        if x is h or x.key() == h.key():
            return {"h": Fr(1)}
        if x.op == "sub" and x.args[0].op == "param" and x.args[0].name == "u" and x.args[1].op == "const" and x.args[1].name == "v":
            return {"v": Fr(1)}
        if x.op == "const" and isinstance(x.name, (int, float)):
            return {"1": Fr(repr(x.name))}
        if x.op == "binop" and x.name in ("+", "-"):
            a, b = lin(x.args[0]), lin(x.args[1])
            if a is None or b is None:
                return None
            out = dict(a)
            for k, v in b.items():
                out[k] = out.get(k, 0) + (v if x.name == "+" else -v)
            return out
        if x.op == "binop" and x.name == "*":
            a, b = lin(x.args[0]), lin(x.args[1])
            if a is None or b is None:
                return None
            if set(a) == {"1"}:
                return {k: v * a["1"] for k, v in b.items()}
            if set(b) == {"1"}:
                return {k: v * b["1"] for k, v in a.items()}
            return None
        if x.op == "unary" and x.name == "USub":
            a = lin(x.args[0])
            return None if a is None else {k: -v for k, v in a.items()}
        return None

    f = lin(t)
    return None if f is None else {k: v for k, v in f.items() if v != 0}


def key_is_sparse(g: T) -> bool:
    return g.op == "cmp" and g.name == "==" and any(a.op == "const" and a.name == "jax.sparse" for a in g.args)


def key_is_sparse_ast(t) -> bool:
    return isinstance(t, ast.Compare) and isinstance(t.ops[0], ast.Eq) and "jax.sparse" in unparse(t)


# --------------------------------------------------------------------------------------


def _vectorfield(repo, col, R="R-C01-explicit"):
    """Forward Euler on unbranched modules:  dv/dt [i] = -g_m[i] v[i] + c[i] + g(i<-i+1) (v[i+1] - v[i]) + g(i<-i-1) (v[i-1] - v[i]),
    with g(i<-j) the conductance of the within-branch edge (type 0) whose SINK is i and whose SOURCE is j."""
    fi = repo.func(SV, "_voltage_vectorfield")
    ex = idxm.expander(repo, fi)
    r = ex.returns[-1] if ex.returns else None
    if r is None:
        raise AnalysisError("_voltage_vectorfield has no return")
    from sa.termalg import term_rat
    from sa.terms import fuse_comprehensions as _fuse_v
    r = _fuse_v(idxm.inline(repo, fi, r, value_only=True))   # local helpers that build the conductance rows are looked through
    # peel the chain  base.at[s].add(x).at[s'].add(y)
    adds = []
    t = r
    while t.op == "mcall" and t.name in ("add", "set") and t.args and t.args[0].op == "sub" and t.args[0].args[0].op == "attr" and t.args[0].args[0].name == "at":
        adds.append((t.name, t.args[0].args[1], t.args[1] if len(t.args) > 1 else None))
        t = t.args[0].args[0].args[0]
    base = t
    try:
        form = term_rat(base, lambda x: Rat.atom(x.name) if x.op == "param" and x.name in ("voltages", "voltage_terms", "constant_terms") else None)
        ok = form.eq(Rat.atom("constant_terms") - Rat.atom("voltage_terms") * Rat.atom("voltages"))
    except Und:
        ok, form = False, None
    col.check(ok, R, fi, "membrane part of the vector field: -voltage_terms * v + constant_terms", "",
              f"the membrane part is {form if form is not None else base.short(80)}", node=fi.node)

    def col_slice(sl):
        """'lo' for [:, :-1] (compartments that have a right neighbour), 'hi' for [:, 1:], else None"""
        if sl.op == "tuple" and len(sl.args) == 2 and sl.args[1].op == "slice":
            a_, b_, c_ = sl.args[1].args
            m1 = lambda z: (z.op == "const" and z.name == -1) or (z.op == "unary" and z.name == "USub" and z.args[0].op == "const" and z.args[0].name == 1)
            none = lambda z: z.op == "const" and z.name is None
            if none(a_) and m1(b_) and none(c_):
                return "lo"
            if a_.op == "const" and a_.name == 1 and none(b_) and none(c_):
                return "hi"
        return None
    seen = {}
    for meth, sl, val in adds:
        which = col_slice(sl)
        if which is None or val is None:
            col.unk(R, fi, "axial part of the vector field", f"update of {sl.short(40)} not recognised", node=fi.node)
            continue
        sd_ = _signed_difference(val) if meth == "add" else None
        good = sd_ is not None
        detail = val.short(120)
        if good:
            d, g = sd_
            if good:
                nb, own = col_slice(d.args[0].args[1]), col_slice(d.args[1].args[1])
                # (neighbour - self): self is the slice being updated, the neighbour the other one
                good = own == which and nb is not None and nb != which
                # conductances: edges of type 0 whose source is the RIGHT neighbour (source > sink) for 'lo', the left one for 'hi'
                c2c = T.find(g, lambda x: x.op == "cmp" and x.name == "==" and x.args[0].op == "param" and x.args[0].name == "types" and
                             x.args[1].op == "const" and x.args[1].name == 0)
                sel = T.find(g, lambda x: x.op == "cmp" and x.name in ("<", ">") and len(x.args) == 2 and
                             T.find(x.args[0], lambda y: y.op == "param" and y.name in ("sources", "sinks")) is not None and
                             T.find(x.args[1], lambda y: y.op == "param" and y.name in ("sources", "sinks")) is not None)
                dirn = None
                if sel is not None:
                    l_is_src = T.find(sel.args[0], lambda y: y.op == "param" and y.name == "sources") is not None
                    src_gt = (sel.name == ">") == l_is_src
                    dirn = "lo" if src_gt else "hi"
                cond_ok = c2c is not None and dirn == which and T.find(g, lambda x: x.op == "param" and x.name == "axial_conductances") is not None
                good = good and cond_ok
                # the per-edge conductances (listed branch after branch) become one row per branch: reshape(g, (nbranches, -1)) in C
                # order, nothing else -- `(-1, nbranches).T` interleaves the branches
                rs_ = g
                shape_ok = rs_.op == "mcall" and rs_.name == "reshape" and rs_.kw.get("order") is None
                if shape_ok:
                    shp = rs_.args[2] if (rs_.args[0].op == "free" and len(rs_.args) > 2) else (rs_.args[1] if len(rs_.args) > 1 else None)
                    m1_ = lambda z: (z.op == "const" and z.name == -1) or (z.op == "unary" and z.name == "USub" and z.args[0].op == "const" and z.args[0].name == 1)
                    shape_ok = shp is not None and shp.op == "tuple" and len(shp.args) == 2 and shp.args[0].op == "param" and \
                        shp.args[0].name == "nbranches" and m1_(shp.args[1])
                col.check(shape_ok, R, fi, f"axial part ({which}): the conductances are laid out one row per branch", "reshape(g, (nbranches, -1))",
                          f"the conductances multiply the voltage differences as `{g.short(90)}`: the edges are listed branch after branch, so "
                          f"only a C-order reshape to (nbranches, -1) puts the edges of branch b into row b", node=fi.node)
                detail = f"(v[{nb}] - v[{own}]) * g, g selected by {sel.short(50) if sel is not None else None} within {c2c.short(30) if c2c is not None else None}"
        seen[which] = good
        col.check(good, R, fi, f"axial part: compartments {'with a right' if which == 'lo' else 'with a left'} neighbour receive g * (v_neighbour - v_self)",
                  "conductance of the type-0 edge from that neighbour", f"update of the {which} slice is {meth}({detail})", node=fi.node)
    col.check(set(seen) == {"lo", "hi"}, R, fi, "both neighbours contribute to the explicit vector field", "", f"updated slices: {sorted(seen)}", node=fi.node)


def _refuse(repo, col, R="R-C01-refuse"):
    fi = repo.func(SV, "_voltage_vectorfield")
    first = None
    for st in fi.node.body:
        if isinstance(st, ast.Expr) and isinstance(st.value, ast.Constant):
            continue
        first = st
        break
    ok = isinstance(first, ast.If) and any(isinstance(x, ast.Raise) for x in first.body)
    types = None
    if ok:
        for n in ast.walk(first.test):
            if isinstance(n, ast.Call) and unparse(n.func).endswith("isin") and isinstance(n.args[1], (ast.List, ast.Tuple)):
                types = sorted(x.value for x in n.args[1].elts if isinstance(x, ast.Constant))
    col.check(ok and types == [1, 2, 3, 4], R, fi, "forward Euler refuses branched morphologies before computing",
              "raise if any edge of type 1..4 is present (only type-0 edges are accumulated)",
              f"the refusal guard is {'missing' if not ok else 'restricted to types ' + str(types)}: edges of types 1-4 would "
              f"be silently ignored by the explicit vector field", node=first or fi.node)
    # (nbranches, -1) reshapes need equally long branches: unequal compartment counts must be refused first
    se = repo.func(SV, "step_voltage_explicit")
    body = se.node.body
    first_reshape = next((i for i, st in enumerate(body) for n in ast.walk(st)
                          if isinstance(n, ast.Call) and unparse(n.func).endswith("reshape") and "-1" in unparse(n)), None)
    guard = next((i for i, st in enumerate(body) if isinstance(st, ast.If) and any(isinstance(x, ast.Raise) for x in st.body)
                  and "ncomp_per_branch" in unparse(st.test)), None)
    if guard is not None:
        # the refusal must hold whenever ANY two branches differ -- a test of all entries, not of a sum / of one entry
        tt = idxm.expander(repo, se).term(body[guard].test)
        npb = lambda t: T.find(t, lambda x: x.op == "param" and x.name == "ncomp_per_branch") is not None
        all_entries = (
            T.find(tt, lambda x: x.op == "cmp" and x.name in (">", "!=", ">=") and len(x.args) == 2 and x.args[0].op == "call" and x.args[0].name == "len" and
                   T.find(x.args[0], lambda y: (y.op in ("mcall", "call") and y.name in ("unique", "set")) and npb(y)) is not None) is not None or
            T.find(tt, lambda x: x.op in ("mcall", "call") and x.name in ("any", "all") and
                   T.find(x, lambda y: y.op == "cmp" and y.name in ("!=", "==") and npb(y)) is not None) is not None or
            T.find(tt, lambda x: x.op == "cmp" and x.name in ("!=", "<", ">") and len(x.args) == 2 and
                   {a_.name for a_ in x.args if a_.op in ("mcall", "call")} == {"min", "max"} and npb(x)) is not None or
            T.find(tt, lambda x: x.op in ("mcall", "call") and x.name == "ptp" and npb(x)) is not None)
        aggregate = T.find(tt, lambda x: x.op == "cmp" and len(x.args) == 2 and
                           any(T.find(a_, lambda y: y.op == "binop" and y.name == "*" and npb(y)) is not None or
                               T.find(a_, lambda y: y.op in ("mcall", "call") and y.name in ("sum", "mean", "prod") and npb(y)) is not None for a_ in x.args)) is not None
        col.add(R, se, "forward Euler: the refusal holds whenever two branches differ in their number of compartments",
                "DISCHARGED" if all_entries else ("VIOLATED" if aggregate else "UNDECIDED"),
                "all entries are compared" if all_entries else
                f"the guard is `{unparse(body[guard].test)[:80]}`: a total / an average equals the uniform one for unequal counts as well (e.g. 3, 2, 4 compartments), "
                f"the model is then not refused and the (nbranches, -1) reshape mixes compartments of different branches", node=body[guard])
    if first_reshape is None:
        col.ok(R, se, "forward Euler: no (nbranches, -1) reshape", "no equal-length assumption", node=se.node)
    else:
        col.check(guard is not None and guard < first_reshape, R, se,
                  "forward Euler refuses branches with different numbers of compartments before reshaping to (nbranches, -1)",
                  "raise NotImplementedError if ncomp_per_branch is not constant",
                  "step_voltage_explicit reshapes voltages / conductances to (nbranches, -1) without refusing unequal compartment counts: "
                  "for a network of an unbranched cell with 2 and one with 4 compartments the rows mix the two cells (6 mV error after 4 steps)",
                  node=body[first_reshape])
    for fname in ("_triang_level", "_backsub_level"):
        f2 = repo.func(SV, fname)
        # a raise statement that runs for none of the solver names the function knows (whatever the if/elif/else arrangement is)
        ex2 = idxm.expander(repo, f2)
        sp_ = next((p_ for p_ in f2.params if "solver" in p_), None)
        names_ = idxm.constants_compared_with(f2.node, sp_) if sp_ else set()
        raises = bool(names_) and any(
            isinstance(n_, ast.Raise) and all(any(idxm.guard_truth(g, sp_, nm_) is False for g in ex2.stmt_guards.get(id(n_), ())) for nm_ in names_)
            for n_ in ast.walk(f2.node))
        col.check(raises, R, f2, f"{fname}: unknown tridiagonal solver name raises", "raise NameError",
                  f"{fname} does not refuse an unknown solver name", node=f2.node)


# --------------------------------------------------------------------------------------
# level bookkeeping and edge tables (three-valued shape rules on small helper functions)


def consecutive_rank(repo, col, R):
    """remap_to_consecutive(parents) numbers the distinct parent branches; compute_children_and_parents pairs that number
    with np.unique(parents), i.e. with the SORTED distinct parents.  The numbering must therefore be the rank in sorted
    order (inverse indices of unique); numbering by first appearance (pd.factorize, dict insertion order) attaches children
    to another parent's branch point whenever the parents do not first appear in ascending order."""
    fi = repo.func("jaxley/utils/cell_utils.py", "remap_to_consecutive")
    ex = idxm.expander(repo, fi)
    r = ex.returns[-1] if ex.returns else None
    if r is None:
        raise AnalysisError("remap_to_consecutive has no return")
    uq = T.find(r, lambda x: x.op == "mcall" and x.name == "unique")
    inv = uq is not None and uq.kw.get("return_inverse") is not None and uq.kw["return_inverse"].op == "const" and uq.kw["return_inverse"].name is True
    only_inv = uq is not None and not any(k_ in uq.kw for k_ in ("return_index", "return_counts"))   # (values, inverse): inverse is entry 1
    is_inverse = inv and only_inv and T.find(r, lambda x: (x.op == "item" and x.name == 1 and x.args[0] is uq) or
                                             (x.op == "sub" and x.args[0] is uq and x.args[1].op == "const" and x.args[1].name in (1, -1))) is not None
    first_seen = T.find(r, lambda x: x.op == "mcall" and x.name in ("factorize",)) is not None
    alt_sorted = T.find(r, lambda x: x.op == "mcall" and x.name == "searchsorted") is not None
    col.add(R, fi, "remap_to_consecutive numbers the values by their rank in sorted order",
            "DISCHARGED" if (is_inverse or alt_sorted) else ("VIOLATED" if first_seen else "UNDECIDED"),
            "inverse indices of unique(arr)" if (is_inverse or alt_sorted) else
            f"remap_to_consecutive returns {r.short(100)}: values are numbered by first appearance, but the callers pair the numbers with the "
            f"sorted np.unique(parents): children attach to the wrong branch point for parents such as [-1, 0, 0, 2, 1]", node=fi.node)


    # the other half of the pairing: branch point k belongs to the k-th SORTED distinct parent
    cf = repo.func("jaxley/utils/cell_utils.py", "compute_children_and_parents")
    cex = idxm.expander(repo, cf)
    rr = cex.merged_return()
    if rr is None or rr.op != "tuple" or not rr.args:
        col.unk(R, cf, "distinct parents, indexed by branch point", "returned tuple not found", node=cf.node)
        return
    pu = rr.args[0]

    def order_of(t):
        """'sorted' / 'first-seen' / None for the order of the distinct values in t"""
        if t.op in ("mcall", "call") and t.name in ("sort", "sorted"):
            return "sorted"
        if t.op == "mcall" and t.name == "unique":
            recv = t.args[0]
            lib = recv.name if recv.op in ("name", "free", "global", "module") else recv.pretty()
            if lib in ("np", "jnp", "numpy"):
                return "sorted" if not t.kw.get("return_index") else None
            if lib in ("pd", "pandas"):
                return "first-seen"
            return None
        if t.op == "call" and t.name in ("list", "tuple") and t.args and t.args[0].op == "call" and t.args[0].name in ("set",):
            return None
        if t.op == "mcall" and t.name in ("fromkeys", "drop_duplicates", "factorize"):
            return "first-seen"
        if t.op in ("mcall", "call") and t.name in ("asarray", "array", "to_numpy", "astype", "list") and t.args:
            return order_of(t.args[-1] if t.op == "call" or t.name in ("asarray", "array") else t.args[0])
        if t.op == "item" and t.args:
            return order_of(t.args[0])
        return None
    o = order_of(pu)
    col.add(R, cf, "branch point k belongs to the k-th distinct parent in SORTED order (the order remap_to_consecutive numbers them in)",
            "DISCHARGED" if o == "sorted" else ("VIOLATED" if o == "first-seen" else "UNDECIDED"),
            "np.unique(parents)" if o == "sorted" else
            f"the distinct parents are {pu.short(80)}: listed by first appearance, while the children's branch-point numbers are ranks in "
            f"sorted order; for parents such as [-1, 0, 0, 2, 1] parents are wired to another parent's branch point", node=cf.node)


def _levels(repo, col, R="R-C01-levels"):
    CUF = "jaxley/utils/cell_utils.py"
    # compute_levels: level(root) = 0, level(child) = level(parent) + 1
    fi = repo.func(CUF, "compute_levels")
    from sa.termalg import term_rat
    exl = idxm.expander(repo, fi)
    from sa.terms import fuse_comprehensions as _fuse

    def _is_minus_one(t):
        return (t.op == "const" and t.name == -1) or (t.op == "unary" and t.name == "USub" and t.args[0].op == "const" and t.args[0].name == 1)

    root_v = child_v = None
    root_guard_ok = None
    for s_ in exl.stores:
        if s_.kind != "sub" or s_.value is None:
            continue
        key = _fuse(s_.key)
        gs = [g for g in s_.guards if g.op != "loop"]
        if len(gs) != 1:
            continue
        g = gs[0]
        neg = False
        while g.op == "not":
            neg = not neg
            g = g.args[0]
        if g.op != "cmp" or g.name not in ("==", "!=", "<", ">=") or len(g.args) != 2:
            continue
        gf = [_fuse(a_) for a_ in g.args]
        par = next((a_ for a_ in gf if a_.op in ("elem", "item", "sub") and T.find(a_, lambda x: x.op == "param" and x.name == fi.params[0]) is not None), None)
        cst = next((a_ for a_ in gf if a_ is not par), None)
        if par is None or cst is None:
            continue
        # is this the "no parent" branch?
        if g.name in ("==", "!="):
            is_root = (g.name == "==") != neg
            root_guard_ok = _is_minus_one(cst)
        else:  # p < 0  /  p >= 0
            is_root = (g.name == "<") != neg
            root_guard_ok = cst.op == "const" and cst.name == 0
        v = _fuse(s_.value)
        if is_root:
            root_v = v
        else:
            # level of the parent + 1: the same table, subscripted with the parent of THIS branch
            try:
                form = term_rat(v, lambda x: Rat.atom("L[p]") if (x.op == "sub" and x.args[0].key() == s_.base.key() and _fuse(x.args[1]).key() == par.key()) else None)
                child_v = form
            except Und:
                child_v = None
    ok = root_v is not None and root_v.op == "const" and root_v.name == 0 and child_v is not None and child_v.eq(Rat.atom("L[p]") + ONE)
    und = root_v is None or child_v is None
    col.add(R, fi, "compute_levels: root 0, child = level(parent) + 1", "DISCHARGED" if ok else ("UNDECIDED" if und else "VIOLATED"),
            "levels[i] = 0 for roots, levels[parent] + 1 otherwise" if ok else
            f"levels are assigned as root: {root_v.short(30) if root_v is not None else None}, child: {child_v}: a branch must be exactly one "
            f"level below its parent", node=fi.node)
    col.check(bool(root_guard_ok), R, fi, "compute_levels: roots are the branches without parent",
              "parent == -1", "the root test of compute_levels is not `parent == -1`", node=fi.node)
    # compute_children_in_level / compute_parents_in_level: decided on the building blocks that occur in the function's terms
    # (row selected, filter condition, range of levels), whether written as nested loops with append or as comprehensions
    from sa.termalg import term_rat

    def all_terms(ex_):
        out = list(ex_.returns)
        for s_ in ex_.stores:
            out += [t_ for t_ in (s_.value, s_.key) if t_ is not None] + list(s_.guards)
        return out

    def lvl_leaf(x):
        if x.op == "mcall" and x.name in ("max", "amax") and T.find(x, lambda y: y.op == "param" and y.name == "levels") is not None:
            return Rat.atom("M")
        if x.op == "elem":
            return Rat.atom("e:" + x.args[0].key())
        if x.op == "pos":
            return Rat.atom("p:" + x.args[0].key())
        return None

    def level_range(elem_t):
        """(lo, hi) of the range an `elem(range(...))` runs over, as forms in M = max(levels)"""
        rg = elem_t.args[0]
        if rg.op != "call" or rg.name != "range":
            return None
        a_ = [term_rat(x, lvl_leaf) for x in rg.args]
        return (ZERO, a_[0]) if len(a_) == 1 else (a_[0], a_[1])

    def is_levels(t):
        """the `levels` argument, possibly converted (np.asarray(levels), levels.copy(), ...)"""
        while t.op in ("mcall", "call") and t.name in ("asarray", "array", "copy", "astype", "to_numpy") and t.args:
            t = t.args[-1] if (t.op == "call" or t.name in ("asarray", "array")) else t.args[0]
        return t.op == "param" and t.name == "levels"

    def is_positions(x, flt_):
        """the positions where the (vector) filter holds: where(f)[0], nonzero(f)[0], flatnonzero(f), or one element of those"""
        if x.op == "elem":
            return is_positions(x.args[0], flt_)
        if x.op == "sub" and x.args[1].op == "const" and x.args[1].name == 0:
            inner = x.args[0]
            return inner.op in ("mcall", "call") and inner.name in ("where", "nonzero") and len(inner.args) <= 2 and \
                T.find(inner, lambda y: y.key() == flt_.key()) is not None
        if x.op in ("mcall", "call") and x.name == "flatnonzero":
            return T.find(x, lambda y: y.key() == flt_.key()) is not None
        return False

    M = Rat.atom("M")
    fi = repo.func(CUF, "compute_children_in_level")
    from sa.terms import align_positions as _alp
    ts = [_alp(t_) for t_ in all_terms(idxm.expander(repo, fi))]   # `for b, lv in enumerate(levels)`: lv is levels[b]
    row = flt = None
    lv_el = lambda a_: a_.op == "elem" and a_.args and is_levels(a_.args[0])
    for t_ in ts:
        row = row or T.find(t_, lambda x: x.op == "sub" and (
            (x.args[0].op == "param" and x.args[0].name == "children_row_and_col") or
            (x.args[0].op == "mcall" and x.args[0].name in ("asarray", "array") and
             T.find(x.args[0], lambda y: y.op == "param" and y.name == "children_row_and_col") is not None)))
        flt = flt or T.find(t_, lambda x: x.op == "cmp" and x.name == "==" and len(x.args) == 2 and
                            any((a_.op == "sub" and is_levels(a_.args[0])) or is_levels(a_) or lv_el(a_) for a_ in x.args))
    if row is None or flt is None:
        col.unk(R, fi, "compute_children_in_level: row selection and level filter", "building blocks not found", node=fi.node)
    else:
        lv_side = next(a_ for a_ in flt.args if (a_.op == "sub" and is_levels(a_.args[0])) or is_levels(a_) or lv_el(a_))
        if lv_el(lv_side):
            lv_side = T("sub", None, [lv_side.args[0], T("pos", None, [lv_side.args[0]])], node=lv_side.node)   # the lock-step element is levels[position]
        l_side = next(a_ for a_ in flt.args if not ((a_.op == "sub" and is_levels(a_.args[0])) or is_levels(a_) or lv_el(a_)))
        vector = is_levels(lv_side)
        contiguous = row.args[1].op == "slice" and any(b_.op != "const" for b_ in row.args[1].args)
        col.check(not contiguous, R, fi, "the rows of a level are selected by the level filter itself", "rows of ALL branches b with levels[b] == l",
                  f"the rows are taken as one contiguous range `{row.short(90)}`: the branches of one level are adjacent only in breadth-first "
                  f"listings; for a depth-first listing such as parents [-1, 0, 1, 0] the range covers branches of other levels and leaves "
                  f"out branches of this one", node=fi.node)
        try:
            if contiguous:
                raise Und("contiguous range")
            if vector:
                # rows = table[np.where(levels == l)[0] - 1]: the branch indices are the positions where the filter holds
                pos = T.find(row.args[1], lambda x: is_positions(x, flt))
                if pos is None:
                    raise Und("positions of the filter not found in the row index")
                off = term_rat(row.args[1], lambda x: Rat.atom("b") if x is pos else lvl_leaf(x)) - Rat.atom("b")
            else:
                b_t = lv_side.args[1]
                off = term_rat(row.args[1], lvl_leaf) - term_rat(b_t, lvl_leaf)
            l_el = T.find(l_side, lambda x: x.op == "elem")
            rng = level_range(l_el) if l_el is not None else None
            if rng is not None:
                sh = term_rat(l_side, lvl_leaf) - term_rat(l_el, lvl_leaf)
                rng = (rng[0] + sh, rng[1] + sh) if sh.is_const() else None
        except Und:
            off, rng = None, None
        if contiguous:
            pass
        elif off is None or rng is None or not off.is_const():
            col.unk(R, fi, "compute_children_in_level: row selection and level filter", f"row {row.short(60)} / filter {flt.short(80)}", node=fi.node)
        else:
            col.check(off.eq(Rat.const(-1)), R, fi, "branch b of level l contributes row b-1 of the (child branch, branch point) table",
                      "children_row_and_col[b - 1] for levels[b] == l",
                      f"branch b selects row b{'+' if off.const_value() >= 0 else ''}{off.const_value()}: row b-1 belongs to child branch b (branch 0 "
                      f"is the root and has no row); another row attaches the wrong branch", node=fi.node)
            col.check(rng[0].eq(ONE) and rng[1].eq(M + ONE), R, fi, "children levels run from 1 to max(levels)", "range(1, max(levels) + 1)",
                      f"levels are iterated over range({rng[0]}, {rng[1]}) with M = max(levels): every level 1..M has children that must be "
                      f"eliminated", node=fi.node)
    fi = repo.func(CUF, "compute_parents_in_level")
    ts = all_terms(idxm.expander(repo, fi))
    row = flt = None
    for t_ in ts:
        row = row or T.find(t_, lambda x: x.op == "sub" and (
            (x.args[0].op == "param" and x.args[0].name == "parents_row_and_col") or
            (x.args[0].op == "mcall" and x.args[0].name in ("asarray", "array") and
             T.find(x.args[0], lambda y: y.op == "param" and y.name == "parents_row_and_col") is not None)))
        flt = flt or T.find(t_, lambda x: x.op == "cmp" and x.name == "==" and len(x.args) == 2 and
                            any(a_.op == "sub" and is_levels(a_.args[0]) for a_ in x.args))
    positional = row is not None and flt is None and row.args[1].op == "slice" and \
        not any(T.find(t_, lambda x: x.op in ("call", "mcall") and x.name in ("argsort", "sort", "sorted", "lexsort", "sort_values", "groupby", "unique", "searchsorted")) is not None for t_ in ts) and \
        not any(T.find(t_, lambda x: x.op == "cmp" and any(T.find(a_, is_levels) is not None for a_ in x.args)) is not None for t_ in ts)
    if positional:
        col.bad(R, fi, "parents of level l are the parent branches whose own level is l, l = 0..max-1",
                f"rows are taken by position (`{row.short(70)}`), with no comparison of the parents' levels and no sorting: that is the set of "
                f"level-l parents only when the parent branches happen to be listed level by level (breadth-first); for a depth-first "
                f"listing the wrong branch points are eliminated with each level", node=row.node if row.node is not None else fi.node)
    elif row is None or flt is None:
        col.unk(R, fi, "compute_parents_in_level: row selection and level filter", "building blocks not found", node=fi.node)
    else:
        lv_side = next(a_ for a_ in flt.args if a_.op == "sub" and is_levels(a_.args[0]))
        l_side = next(a_ for a_ in flt.args if a_ is not lv_side)
        by_parent = lv_side.args[1].op == "param" and lv_side.args[1].name == "par_inds"
        uses_filter = T.find(row.args[1], lambda x: x.key() == flt.key()) is not None
        try:
            l_el = T.find(l_side, lambda x: x.op == "elem")
            rng = level_range(l_el) if l_el is not None else None
            shift = term_rat(l_side, lvl_leaf) - term_rat(l_el, lvl_leaf) if l_el is not None else None
        except Und:
            rng, shift = None, None
        if rng is None or shift is None or not shift.is_const():
            col.unk(R, fi, "compute_parents_in_level: level filter", flt.short(100), node=fi.node)
        else:
            lo, hi = rng[0] + shift, rng[1] + shift
            ok = by_parent and uses_filter and lo.eq(ZERO) and hi.eq(M)
            col.check(ok, R, fi, "parents of level l are the parent branches whose own level is l, l = 0..max-1",
                      "parents_row_and_col[where(levels[par_inds] == l)] for l in range(max(levels))",
                      f"rows are selected by `{flt.short(80)}` for levels {lo}..{hi} (exclusive), indexed by "
                      f"{'the parent branches' if by_parent else lv_side.args[1].short(30)}: the parents eliminated together with the children "
                      f"of level l+1 must be the branches of level l", node=fi.node)
    consecutive_rank(repo, col, R)
    # group_and_sum: additive scatter from zeros
    fi = repo.func(CUF, "group_and_sum")
    ex = idxm.expander(repo, fi)
    r = ex.returns[-1] if ex.returns else None
    adds = T.find_all(r, lambda x: x.op == "mcall" and x.name in ("add", "set")) if r is not None else []
    ok = bool(adds) and all(a.name == "add" for a in adds) and T.find(r, lambda x: x.op == "mcall" and x.name == "zeros") is not None
    col.add(R, fi, "group_and_sum accumulates (adds) the weights of a branch point", "DISCHARGED" if ok else ("VIOLATED" if adds else "UNDECIDED"),
            ".at[inds].add from zeros" if ok else "weights meeting at one branch point must be summed; `.set` keeps only one of them", node=fi.node)
    # order of the branch-point group indices == order of the concatenated weights (parents first, then children)
    fi = repo.func(CUF, "build_branchpoint_group_inds")
    ex = idxm.expander(repo, fi)
    cat = T.find(ex.returns[-1], lambda x: x.op == "mcall" and x.name == "concatenate") if ex.returns else None
    order = None
    if cat is not None and cat.args[1].op == "list" and len(cat.args[1].args) == 2:
        a, b = cat.args[1].args
        order = ("parents" if T.find(a, lambda x: x.op == "mcall" and x.name == "arange") is not None else "children",
                 "children" if T.find(b, lambda x: x.op == "param" and x.name == "child_belongs_to_branchpoint") is not None else "parents")
    sv = repo.func(SV, "step_voltage_implicit_with_jaxley_spsolve")
    exs = idxm.expander(repo, sv)
    # the weights handed to group_and_sum together with idx.branchpoint_group_inds: a concatenation of the edges of type 3 (parent
    # compartment -> branch point) and of type 4 (child compartment -> branch point), identified by the type constant they are
    # selected with, whatever the local variables are called
    order2 = None
    gs = next((c for c in exs.calls if isinstance(c.func, ast.Name) and c.func.id == "group_and_sum" and c.args), None)
    if gs is not None:
        vt = exs.term(gs.args[0])
        cat2 = T.find(vt, lambda x: x.op == "mcall" and x.name in ("concatenate", "hstack") and len(x.args) > 1 and x.args[1].op in ("list", "tuple"))
        if cat2 is not None and len(cat2.args[1].args) == 2:
            def side(t_):
                ks = {x.args[1].name for x in t_.walk() if x.op == "cmp" and x.name == "==" and len(x.args) == 2 and x.args[1].op == "const"
                      and x.args[0].op == "param" and x.args[0].name == "types"}
                return "parents" if ks == {3} else ("children" if ks == {4} else None)
            o_ = tuple(side(x) for x in cat2.args[1].args)
            order2 = o_ if None not in o_ else None
    col.add(R, fi, "group indices and concatenated weights list parents first, then children",
            "DISCHARGED" if order == order2 == ("parents", "children") else ("VIOLATED" if order and order2 and order != order2 else "UNDECIDED"),
            f"{order} / {order2}" if order == order2 else
            f"group indices are ordered {order} but the weights are concatenated as {order2}: weights are summed into the wrong branch points", node=fi.node)
    # compute_children_and_parents: the branch-point of a child is the rank of its parent among the unique parents
    fi = repo.func(CUF, "compute_children_and_parents")
    src = unparse(fi.node)
    exc_ = idxm.expander(repo, fi)
    rr_ = exc_.merged_return()
    cb = None
    if rr_ is not None and rr_.op == "tuple" and len(rr_.args) >= 3:
        cb = rr_.args[2]  # (child_inds, par_inds, child_belongs_to_branchpoint, ...)
    for t_ in ([cb] if cb is not None else []):
        pass
    if cb is None:
        col.unk(R, fi, "child -> branch point map", "third returned value not found", node=fi.node)
    else:
        per_child = T.find(cb, lambda x: (x.op == "call" and x.name == "remap_to_consecutive") or
                           (x.op == "mcall" and x.name == "unique" and x.kw.get("return_inverse") is not None) or
                           (x.op == "mcall" and x.name == "searchsorted"))
        from_raw = per_child is not None and T.find(per_child, lambda x: x.op == "mcall" and x.name == "unique" and x is not per_child) is None
        grouped = T.find(cb, lambda x: x.op == "mcall" and x.name == "repeat") is not None
        # a running count of CHANGES of the parent (cumsum(diff(parents) != 0)): the number of runs so far, which is the rank only if equal
        # parents are adjacent and ascending
        runs = per_child is None and T.find(cb, lambda x: x.op == "mcall" and x.name == "cumsum" and
                                            T.find(x, lambda y: y.op == "mcall" and y.name in ("diff", "ediff1d", "roll")) is not None) is not None
        col.add(R, fi, "child -> branch point: rank of the child's parent among the distinct parents, looked up PER CHILD",
                "DISCHARGED" if (per_child is not None and from_raw) else ("VIOLATED" if (grouped or runs or per_child is not None) else "UNDECIDED"),
                "remap_to_consecutive(parent of each child)" if (per_child is not None and from_raw) else
                (f"the map is built as {cb.short(100)}: a running count of the places where the parent CHANGES numbers the runs of equal parents; that is "
                 f"the parent's rank only when the edge table lists the children of one parent next to each other and the parents in ascending order "
                 f"(parents [-1, 0, 0, 1, 1, 3, 3, 2, 2] are not): children attach to another parent's branch point" if runs else
                 f"the map is built as {cb.short(100)}: repeating each branch point by its number of children assumes that the children of "
                 f"one parent are listed consecutively; for parents such as [-1, 0, 0, 1, 2, 1] children attach to another parent's "
                 f"branch point" if grouped else
                 f"the map is computed from the already de-duplicated parents ({cb.short(80)}): children lose their branch point"),
                node=fi.node)
    # within-branch edges: (i, i+1) and (i+1, i) for consecutive compartments -- on terms, so ranges written directly or as
    # slices of one list of the branch's compartments are the same thing
    from sa.termalg import term_rat as _tr

    def _leaf(x):
        if x.op == "item" and x.args[0].op == "elem" and x.args[0].args[0].op == "call" and x.args[0].args[0].name == "zip":
            za = x.args[0].args[0].args
            if isinstance(x.name, int) and x.name < len(za):
                nm = za[x.name].name if za[x.name].op == "attr" else None
                if nm == "ncomp_per_branch":
                    return Rat.atom("n")
                if nm == "cumsum_ncomp":
                    return Rat.atom("c")
        if x.op == "attr" and x.name == "ncomp" and x.args[0].op == "param":
            return Rat.atom("n")
        return None

    def _range_of(t_):
        """(lo, hi) of list(range(lo, hi)) / np.asarray(range(lo, hi)) / np.arange(lo, hi), possibly sliced [:-1] / [1:] or shifted
        by a constant (`r + 1`)"""
        if t_.op == "call" and t_.name == "list" and len(t_.args) == 1:
            return _range_of(t_.args[0])
        if t_.op == "mcall" and t_.name in ("asarray", "array") and len(t_.args) >= 2 and t_.args[0].op == "free":
            return _range_of(t_.args[1])
        if t_.op == "mcall" and t_.name == "astype" and t_.args:
            return _range_of(t_.args[0])
        if (t_.op == "call" and t_.name == "range") or (t_.op == "mcall" and t_.name == "arange" and t_.args and t_.args[0].op == "free"):
            ra = t_.args if t_.op == "call" else t_.args[1:]
            a_ = [_tr(x, _leaf) for x in ra]
            return (ZERO, a_[0]) if len(a_) == 1 else (a_[0], a_[1])
        if t_.op == "binop" and t_.name in ("+", "-") and t_.args[1].op == "const" and isinstance(t_.args[1].name, int):
            base = _range_of(t_.args[0])
            if base is not None:
                k_ = Rat.const(t_.args[1].name if t_.name == "+" else -t_.args[1].name)
                return (base[0] + k_, base[1] + k_)
            return None
        if t_.op == "sub" and t_.args[1].op == "slice":
            base = _range_of(t_.args[0])
            lo, hi, st_ = t_.args[1].args
            if base is None or not (st_.op == "const" and st_.name is None):
                return None
            blo, bhi = base
            if lo.op == "const" and lo.name is None and hi.op == "unary" and hi.name == "USub" and hi.args[0].op == "const":
                return (blo, bhi - Rat.const(hi.args[0].name))
            if hi.op == "const" and hi.name is None and lo.op == "const" and isinstance(lo.name, int):
                return (blo + Rat.const(lo.name), bhi)
            return None
        return None

    for cls in ("Branch", "Cell"):
        fi = repo.method(cls, "_init_morph_jax_spsolve")
        exc = idxm.expander(repo, fi)
        def two_parts(t_):
            """the two per-branch pieces of a source / sink column: `A + B` (lists), or `np.concatenate(parts)` where `parts` is a
            local list that the loop over the branches extends by `[A, B]`"""
            if t_.op == "binop" and t_.name == "+":
                return [t_.args[0], t_.args[1]]
            if t_.op == "mcall" and t_.name in ("concatenate", "hstack") and len(t_.args) >= 2:
                ext = [s_ for s_ in exc.stores if s_.kind == "aug" and s_.value is not None and s_.value.op == "list" and len(s_.value.args) == 2 and
                       any(g.op == "loop" for g in s_.guards) and isinstance(s_.node, ast.AST) and
                       T.find(t_.args[1], lambda y: y.op == "list" and y.key() == s_.value.key()) is not None]
                if len(ext) == 1:
                    return list(ext[0].value.args)
            return None
        # the type-0 block: the dictionary with a source and a sink column (and no branch-point type) whose columns are two ranges each
        dterm = None
        for n in ast.walk(fi.node):
            if isinstance(n, ast.Dict):
                ks = [k.value for k in n.keys if isinstance(k, ast.Constant)]
                if "source" in ks and "sink" in ks:
                    tv = n.values[ks.index("type")] if "type" in ks else None
                    if tv is not None and not (isinstance(tv, ast.Constant) and tv.value == 0):
                        continue
                    cand_ = (n, exc.term(n.values[ks.index("source")]), exc.term(n.values[ks.index("sink")]))
                    if dterm is None and two_parts(cand_[1]) is not None and two_parts(cand_[2]) is not None:
                        dterm = cand_
        if dterm is None:
            col.unk(R, fi, f"{cls}: within-branch edges", "edge dictionary not found", node=fi.node)
            continue
        d, so_t, si_t = dterm
        try:
            halves = []
            for t_ in (so_t, si_t):
                pr = two_parts(t_)
                if pr is None:
                    raise Und("source/sink is not a concatenation of two ranges")
                h = [_range_of(pr[0]), _range_of(pr[1])]
                if None in h:
                    raise Und(f"range not recognised in {t_.short(60)}")
                halves.append(h)
            so, si = halves
            n_ = Rat.atom("n")
            c0 = so[0][0]
            ok = so[0][1].eq(c0 + n_ - ONE) and si[0][0].eq(c0 + ONE) and si[0][1].eq(c0 + n_) and \
                so[1][0].eq(si[0][0]) and so[1][1].eq(si[0][1]) and si[1][0].eq(so[0][0]) and si[1][1].eq(so[0][1]) and \
                (c0.eq(ZERO) if cls == "Branch" else c0.eq(Rat.atom("c")))
            col.check(bool(ok), R, fi, f"{cls}: within-branch edges are (i, i+1) and (i+1, i) for i = first..last-1",
                      "source [c, c+n-1) + [c+1, c+n), sink [c+1, c+n) + [c, c+n-1)",
                      f"edge ranges: source {[(repr(a_), repr(b_)) for a_, b_ in so]}, sink {[(repr(a_), repr(b_)) for a_, b_ in si]} "
                      f"(c = first compartment of the branch, n = its number of compartments)", node=d)
        except Und as e:
            col.unk(R, fi, f"{cls}: within-branch edges", str(e), node=d)


def category_major(repo, col, R):
    """The edge table of a network is CATEGORY-major: all within-branch edges (type 0) of all cells, then all branch-point -> compartment
    edges (types 1, 2) of all cells, then all compartment -> branch-point edges (types 3, 4).  `compute_axial_conductances` returns the
    conductances as the concatenation [type 0, types 1/2, types 3/4], each part in table order, and every consumer pairs conductance k
    with row k of the table.  A loop over the cells that appends two categories per cell produces a cell-major table, and from the second
    branched cell on the conductances and the Kirchhoff weights sit on the wrong edges."""
    fi = repo.method("Network", "_init_morph_jax_spsolve")
    ex = idxm.expander(repo, fi)
    CAT = {0: "A", 1: "B", 2: "B", 3: "C", 4: "C"}

    def types_of(t):
        out = set()
        for x in t.walk():
            if x.op == "cmp" and x.name == "==" and any(a_.op == "const" and isinstance(a_.name, int) for a_ in x.args) and \
                    any(T.find(a_, lambda y: y.op == "const" and y.name == "type") is not None for a_ in x.args):
                out |= {a_.name for a_ in x.args if a_.op == "const" and isinstance(a_.name, int)}
            if x.op == "mcall" and x.name == "isin" and T.find(x.args[0], lambda y: y.op == "const" and y.name == "type") is not None:
                for a_ in x.args[1:]:
                    if a_.op in ("list", "tuple"):
                        out |= {c_.name for c_ in a_.args if c_.op == "const" and isinstance(c_.name, int)}
        return out

    seq = []   # (loop node or None, categories appended by one statement, in order)
    def literal_categories(it):
        """`for types, ... in [([0], ..), ([1, 2], ..), ([3, 4], ..)]:` -- the categories are data; one per iteration, in list order"""
        if not isinstance(it, (ast.List, ast.Tuple)) or not it.elts:
            return None
        out = []
        for e in it.elts:
            first = e.elts[0] if isinstance(e, (ast.Tuple, ast.List)) and e.elts else e
            ks = [c.value for c in ast.walk(first) if isinstance(c, ast.Constant) and isinstance(c.value, int) and not isinstance(c.value, bool)]
            if not ks or any(k_ not in CAT for k_ in ks):
                return None
            out.append({CAT[k_] for k_ in ks})
        return out

    def visit(stmts, loop):
        for st in stmts:
            lc = literal_categories(st.iter) if isinstance(st, ast.For) else None
            if lc is not None and loop is None and any(isinstance(x, (ast.For, ast.ListComp)) for b_ in st.body for x in ast.walk(b_)) and \
                    any(isinstance(x, ast.Call) and isinstance(x.func, ast.Attribute) and x.func.attr in ("append", "concat", "extend") for b_ in st.body for x in ast.walk(b_)):
                # category loop outside, cells inside: what the body appends per iteration belongs to that iteration's category
                for k_, cats in enumerate(lc):
                    seq.append((("lit", id(st), k_), cats, st))
                continue
            if isinstance(st, (ast.For, ast.While)):
                visit(st.body, st if loop is None else loop)
                continue
            if isinstance(st, ast.If):
                visit(st.body, loop)
                visit(st.orelse, loop)
                continue
            if isinstance(st, ast.Assign) and any(isinstance(t_, ast.Attribute) and t_.attr == "_comp_edges" for t_ in st.targets) and \
                    isinstance(st.value, ast.Call) and unparse(st.value.func).split(".")[-1] in ("concat", "concatenate") and st.value.args and \
                    isinstance(st.value.args[0], (ast.List, ast.Tuple)):
                for el in st.value.args[0].elts:
                    if isinstance(el, ast.Attribute) and el.attr == "_comp_edges":
                        continue
                    ts = types_of(ex.term(el))
                    cats = {CAT.get(k_) for k_ in ts}
                    if not cats and any(isinstance(l_, tuple) for l_, _c, _s in seq):
                        continue   # the blocks were collected by a category loop above; this statement only joins them
                    seq.append((loop, cats, st))
    visit(fi.node.body, None)
    if len(seq) < 3 or any(not c_ or None in c_ for _l, c_, _s in seq):
        col.unk(R, fi, "the edge table of a network is built category by category", f"appended blocks: {[sorted(c_) for _l, c_, _s in seq]}", node=fi.node)
        return
    order = []
    mixed_loop = None
    by_loop = {}
    for l_, c_, s_ in seq:
        if len(c_) != 1:
            mixed_loop = mixed_loop or s_
        k_ = next(iter(c_))
        if not order or order[-1] != k_:
            order.append(k_)
        if l_ is not None:
            by_loop.setdefault(l_ if isinstance(l_, tuple) else id(l_), []).append((k_, s_))
    for _lid, items in by_loop.items():
        if len({k_ for k_, _s in items}) > 1:
            mixed_loop = mixed_loop or items[0][1]
    ok = order == ["A", "B", "C"] and mixed_loop is None
    col.check(ok, R, fi, "the edge table of a network is built category by category (type 0 | types 1, 2 | types 3, 4), each over all cells",
              "three loops over the cells, one per category",
              f"blocks are appended in the order {[(sorted(c_)) for _l, c_, _s in seq]}" + (": one loop over the cells appends two categories per cell, so the table "
              "is cell-major; compute_axial_conductances returns [type 0 | types 1, 2 | types 3, 4] and row k of the table no longer meets conductance k "
              "as soon as two cells have branch points" if mixed_loop is not None else ""), node=mixed_loop or fi.node)
    # the producer of the conductances: same three categories, in this order
    cf = repo.func("jaxley/utils/cell_utils.py", "compute_axial_conductances")
    exc = idxm.expander(repo, cf)
    conds = []
    for n in walk_no_nested(cf.node):
        if isinstance(n, ast.Assign) and len(n.targets) == 1 and isinstance(n.targets[0], ast.Name):
            ts = types_of(exc.term(n.value))
            if ts and exc.term(n.value).op in ("cmp", "mcall"):
                cs = {CAT.get(k_) for k_ in ts}
                if len(cs) == 1 and (not conds or conds[-1] != next(iter(cs))):
                    conds.append(next(iter(cs)))
    col.check(conds == ["A", "B", "C"], R, cf, "compute_axial_conductances computes [type 0 | types 1, 2 | types 3, 4] in this order", "A, B, C",
              f"the type selections appear in the order {conds}", node=cf.node)
