def check(repo, col, tier):
    pass
