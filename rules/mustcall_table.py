"""Must-pass-through obligations: (properties, function, (receiver, callee), why).

Each pair was taken from the calls that are executed on every normal path of the pinned tree (sa.mustcall) and kept
only after reading the function: the callee re-establishes or computes something the property depends on, so a path
that skips it (a new early return, a new condition around the call, a dropped call) breaks the property.  A receiver
of None means "any receiver / plain function".  Transitive: the obligation is also met when the call happens inside
a helper (repository function or method on self) that is itself called on every path.
"""
ANY = None
TABLE = [
    # --- views (C11)
    (("C11",), "View.__init__", ("self", "_set_inds_in_view"), "the view's rows are computed from the pointer and the requested indices"),
    (("C11",), "View.__init__", ("self", "_update_local_indices"), "local indices are the dense ranks within the view, for node-only AND edge-only selections"),
    (("C11", "C19"), "View.__init__", ("self", "_channels_in_view"), "channels shown by the view are those present on its rows"),
    (("C11", "C09"), "View.__init__", ("self", "_set_synapses_in_view"), "synapses of the view"),
    (("C11", "C08"), "View.__init__", ("self", "_set_externals_in_view"), "inputs shown by the view"),
    (("C11", "C10"), "View.__init__", ("self", "_set_trainables_in_view"), "trainables shown by the view"),
    (("C11",), "View.__init__", ("self", "_jax_arrays_in_view"), "jax tables of the view"),
    (("C11",), "Module._at_nodes", ("self", "_reformat_index"), "index forms (int, list, range, slice, bool, 'all') are normalised before matching"),
    (("C11",), "Module._at_edges", ("self", "_reformat_index"), "index forms are normalised before matching"),
    (("C11",), "Module.cell", ("self", "_at_nodes"), "selection by level"),
    (("C11",), "Module.branch", ("self", "_at_nodes"), "selection by level"),
    (("C11",), "Module.comp", ("self", "_at_nodes"), "selection by level"),
    (("C11",), "Module.edge", ("self", "_at_edges"), "selection of synapses"),
    # --- assembly (C12, C01)
    (("C12",), "Branch.__init__", ("self", "_gather_channels_from_constituents"), "channels of the constituents are registered"),
    (("C12",), "Cell.__init__", ("self", "_gather_channels_from_constituents"), "channels of the constituents are registered"),
    (("C12",), "Network.__init__", ("self", "_gather_channels_from_constituents"), "channels of the constituents are registered"),
    (("C12",), "Branch.__init__", ("self", "_append_params_and_states"), "default parameters of the level are appended"),
    (("C12",), "Cell.__init__", ("self", "_append_params_and_states"), "default parameters of the level are appended"),
    (("C12",), "Network.__init__", ("self", "_append_params_and_states"), "default parameters of the level are appended"),
    (("C12", "C11"), "Branch.__init__", ("self", "_update_local_indices"), "local indices after assembly"),
    (("C12", "C11"), "Cell.__init__", ("self", "_update_local_indices"), "local indices after assembly"),
    (("C12", "C11"), "Network.__init__", ("self", "_update_local_indices"), "local indices after assembly"),
    (("C12", "C01"), "Branch.__init__", ("self", "_initialize"), "solver structures are built for the assembled module"),
    (("C12", "C01"), "Cell.__init__", ("self", "_initialize"), "solver structures are built for the assembled module"),
    (("C12", "C01"), "Network.__init__", ("self", "_initialize"), "solver structures are built for the assembled module"),
    (("C12", "C01"), "Compartment.__init__", ("self", "_initialize"), "solver structures are built"),
    (("C01", "C13"), "Module._initialize", ("self", "_init_morph"), "solver structures (re-run by set_ncomp)"),
    (("C01", "C13"), "Module._init_morph", ("self", "_init_morph_jaxley_spsolve"), "structures of the custom solver"),
    (("C01", "C13"), "Module._init_morph", ("self", "_init_morph_jax_spsolve"), "structures of the generic sparse solver"),
    (("C01",), "step_voltage_implicit_with_jaxley_spsolve", (ANY, "_triang_branched"), "elimination phase"),
    (("C01",), "step_voltage_implicit_with_jaxley_spsolve", (ANY, "_backsub_branched"), "back-substitution phase"),
    (("C01", "C02"), "step_voltage_implicit_with_jaxley_spsolve", (ANY, "group_and_sum"), "weights meeting at a branch point are summed"),
    (("C01",), "step_voltage_explicit", (ANY, "_voltage_vectorfield"), "forward Euler uses the vector field"),
    (("C01", "C13"), "Cell._init_morph_jaxley_spsolve", (ANY, "compute_levels"), "levels of the branch tree"),
    (("C01", "C13"), "Cell._init_morph_jaxley_spsolve", (ANY, "remap_index_to_masked"), "padding map of unequal branches: rebuilt on EVERY re-initialisation (set_ncomp changes the map even when the padded widths stay)"),
    (("C01", "C13"), "Cell._init_morph_jaxley_spsolve", (ANY, "JaxleySolveIndexer"), "the solve indexer is rebuilt on every re-initialisation"),
    (("C01", "C12"), "Network._init_morph_jaxley_spsolve", (ANY, "merge_cells"), "per-cell level tables are merged"),
    (("C01", "C12", "C02"), "Network._init_morph_jaxley_spsolve", (ANY, "remap_index_to_masked"), "padding map of unequal branches: the network's padded layout differs from the cells' own"),
    # --- re-discretisation (C13, C19)
    (("C13", "C19"), "Module.set_ncomp", ("self.base", "_update_local_indices"), "local indices after the rows changed"),
    (("C13", "C19", "C01"), "Module.set_ncomp", ("self.base", "_initialize"), "solver structures after the rows changed"),
    (("C13", "C19"), "Module.set_ncomp", ("self.base", "_init_view"), "the module's own view after the rows changed"),
    # --- parameters / states (C10, C14)
    (("C10",), "integrate", ("module", "to_jax"), "every simulation starts from the current tables"),
    (("C10",), "Module.write_trainables", ("self.base", "to_jax"), "current tables"),
    (("C10", "C14"), "Module._get_states_from_nodes_and_edges", ("self.base", "to_jax"), "current tables"),
    (("C10", "C01", "C15"), "Module.get_all_parameters", ("self.base", "_compute_axial_conductances"), "axial conductances are recomputed from the (possibly trainable) geometry"),
    (("C10", "C14"), "Module.get_all_states", ("self.base", "_get_states_from_nodes_and_edges"), "states come from the tables"),
    (("C14",), "Module.init_states", ("self.base", "get_all_parameters"), "steady states use the current parameters"),
    # --- integrate (C06, C07, C08)
    (("C08", "C06"), "integrate", (ANY, "add_stimuli"), "data stimuli are merged with the persistent ones"),
    (("C08", "C06"), "integrate", (ANY, "add_clamps"), "data clamps are merged with the persistent ones"),
    (("C06", "C07"), "integrate", (ANY, "nested_checkpoint_scan"), "the time loop"),
    (("C06", "C07"), "integrate", (ANY, "build_init_and_step_fn"), "the same init/step functions as the stepping API"),
    (("C08",), "Module.stimulate", ("self", "_external_input"), "shared input path"),
    (("C08",), "Module.clamp", ("self", "_external_input"), "shared input path"),
    (("C08",), "Module.data_stimulate", ("self", "_data_external_input"), "shared input path"),
    (("C08",), "Module.data_clamp", ("self", "_data_external_input"), "shared input path"),
    (("C08", "C19"), "Module.delete_stimuli", ("self", "delete_clamps"), "shared deletion path"),
    (("C08", "C02"), "Module._get_external_input", (ANY, "convert_point_process_to_distributed"), "nA -> uA/cm^2 by the membrane area"),
    (("C05", "C06", "C01"), "Module.step", ("self", "_step_channels"), "channel states and currents"),
    (("C05", "C06", "C09"), "Module.step", ("self", "_step_synapse"), "synapse states and currents"),
    (("C09",), "Network._step_synapse", ("self", "_step_synapse_state"), "synapse states advance"),
    (("C09",), "Network._step_synapse", ("self", "_synapse_currents"), "synaptic currents are computed"),
    (("C09", "C20"), "Network._append_multiple_synapses", ("self", "_infer_synapse_type_ind"), "type index of the new edges"),
    (("C09", "C20"), "Network._append_multiple_synapses", ("self", "_add_params_to_edges"), "parameters of the new edges"),
    (("C19",), "Module.delete_trainables", ("self", "_update_view"), "the calling view is refreshed"),
    # --- SWC (C16)
    (("C16",), "swc_to_jaxley", (ANY, "_split_into_branches_and_sort"), "sections"),
    (("C16",), "swc_to_jaxley", (ANY, "_build_parents"), "connectivity"),
    (("C16",), "swc_to_jaxley", (ANY, "_compute_pathlengths"), "traced lengths"),
    (("C16", "C18"), "swc_to_jaxley", (ANY, "_radius_generating_fns"), "radius interpolation"),
    (("C16",), "read_swc", (ANY, "swc_to_jaxley"), "reader"),
    (("C16", "C13"), "read_swc", (ANY, "build_radiuses_from_xyzr"), "compartment radii from the traced radii"),
    (("C16",), "_split_into_branches_and_sort", (ANY, "_split_into_branches"), "sections"),
    (("C16",), "_split_long_branches", (ANY, "_compute_pathlengths"), "lengths decide the splitting"),
    # --- connectivity (C20)
    (("C20", "C09"), "connect", (ANY, "is_same_network"), "pre and post must belong to one network"),
]


# Stores that re-establish an invariant and must be executed on EVERY normal path of the function (no condition): the
# (re-)initialisers are called again by set_ncomp / View creation on objects that already carry the old values.
# (properties, function, kind, name, reason); kind: "attr" = self.<name> = ..., "column" = self.nodes[<name>] = ...
MUST_STORE = [
    (("C13", "C19", "C10", "C11"), "Module._init_view", "column", "controlled_by_param",
     "the parameter-sharing column is reset: rows created by set_ncomp are copies of rows of a view, whose value is the view's"),
    (("C13", "C19", "C11"), "Module._init_view", "attr", "_nodes_in_view", "the module's own view lists all (renumbered) rows"),
    (("C13", "C19", "C11"), "Module._init_view", "attr", "_edges_in_view", "the module's own view lists all edges"),
    (("C13", "C11"), "Module._init_view", "attr", "_current_view", "level of the module"),
    (("C10", "C14", "C13"), "Module.to_jax", "attr", "jaxnodes", "rebuilt from the current node table"),
    (("C10", "C14", "C09"), "Module.to_jax", "attr", "jaxedges", "rebuilt from the current edge table"),
]
