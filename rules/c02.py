"""C02 -- axial coupling conserves charge, is reciprocal and never overshoots (algebraic part)."""
from __future__ import annotations

import ast

from sa.core import AnalysisError, unparse, walk_no_nested
from sa.terms import Expander, T
from . import cable

LEVEL = "other"
EXPLANATION = (
    "Decides the algebraic identities that conservation, reciprocity and the M-matrix property reduce "
    "to, for all positive radii/lengths/resistivities (polynomial identities, not samples). The call "
    "sites in compute_axial_conductances are read to learn which end (sink/source) each argument is "
    "gathered from; the helpers are then evaluated with role-named atoms. R-C02-oracle: c2c value == "
    "1/(R_sink/2+R_source/2)/area_sink, bp2c == 1/(R_sink/2)/area_sink (mS/cm^2). R-C02-recip: "
    "g(i<-j)*area_i == g(j<-i)*area_j. R-C02-kirchhoff: branch-point weights proportional to absolute "
    "half-compartment conductances. R-C02-call-roles: one row filter per block, correct edge types, "
    "division by capacitance[sink]. R-C02-sign: conductances positive => with the zero-row-sum "
    "assembly (C01) a strictly diagonally dominant M-matrix for every dt>0. R-C02-stim: injected "
    "current is I/(2*pi*r*l)*1e5 with radius/length gathered by the same index array the additive "
    "scatter uses. Does not decide floating-point behaviour."
)
ASSUMPTIONS = ["positivity of radius, length, axial_resistivity, capacitance", "the assembly pairing is judged by C01"]


def check(repo, col, tier):
    col.rule("R-C02-oracle", "conductance helper at its call site == textbook axial conductance per sink area", 2)
    col.rule("R-C02-recip", "absolute axial conductance is symmetric (polynomial identity)", 1)
    col.rule("R-C02-kirchhoff", "branch-point weights proportional to absolute conductances", 1)
    col.rule("R-C02-call-roles", "argument roles / edge-type filters / capacitance of the sink", 6)
    col.rule("R-C02-sign", "conductance forms positive over positive atoms", 3)
    from . import c09 as _c09, c01_solver as _cs
    col.rule("R-C02-additive", "currents of several synapses onto one compartment add (charge balance includes every synapse)", 4)
    _c09._additive(repo, col, "R-C02-additive")
    col.rule("R-C02-elim", "the elimination steps of the custom solvers address each branch point with its own index", 10)
    _cs._elim(repo, col, "R-C02-elim")
    col.rule("R-C02-stim", "stimulus: I/(2 pi r l)*1e5, same index for gather and additive scatter", 4)
    cable.check_axial(repo, col, {"roles": "R-C02-call-roles", "oracle": "R-C02-oracle", "recip": "R-C02-recip",
                                  "kirchhoff": "R-C02-kirchhoff", "sign": "R-C02-sign", "cap": "R-C02-call-roles"})
    cable.check_point_process(repo, col, "R-C02-stim")
    _stim(repo, col)
    # the matrix structure conservation / no-overshoot rest on (shared with C01): every off-diagonal -dt*g into a row has
    # +dt*g on that row's diagonal (zero row sum of the coupling part), branch-point rows sum to zero, and every level of
    # every cell is solved.
    from . import c01_solver, c10, c01
    col.rule("R-C02-derived", "coupling conductances use the same geometry as area and capacitance", 1)
    c10.derived_after_overrides(repo, col, "R-C02-derived")
    # charge balance: every current (membrane, stimulus, synaptic) enters the voltage equation divided by the capacitance of
    # its compartment -- an injected charge of Q changes the membrane charge by Q, whatever cm is (shared with C01/C08/C09/C15)
    col.rule("R-C02-charge", "all currents enter the voltage equation per unit capacitance", 2)
    from . import c15 as _c15
    _c15._capacitance(repo, col, "R-C02-charge")
    # the synaptic current density is charge per area of the compartment that RECEIVES it (shared with C09/C19)
    from . import c09 as _c09, idx as _idx
    col.rule("R-C02-synapse", "synaptic currents are converted with the geometry of the postsynaptic compartment and added there", 6)
    _cl = _idx.compute_slots(repo, col, "R-C02-synapse", emit=())
    _c09._roles(repo, col, _cl, "_synapse_currents", "R-C02-synapse", "R-C02-synapse")
    col.rule("R-C02-currents", "membrane currents are computed at and accumulated into the rows of their channel", 9)
    channel_current_rows(repo, col, "R-C02-currents")
    col.rule("R-C02-layout", "every compartment's row is the one its neighbours' couplings point to (padded layout)", 8)
    c01._layout(repo, col, "R-C02-layout")
    col.rule("R-C02-rowsum", "coupling part of the implicit matrices has zero row sums (contribution tables)", 10)
    col.rule("R-C02-schedule", "every level of every cell is part of the solve", 1)
    c01_solver._assembly_jaxley(repo, col, "R-C02-rowsum")
    c01_solver._assembly_sparse(repo, col, "R-C02-rowsum")
    c01_solver._merge(repo, col, "R-C02-schedule")
    # ... and is triangulated / back-substituted with the bands in the places the kernels expect them (shared with C01/C15)
    c01_solver._schedule(repo, col, "R-C02-schedule")
    # the branch-point rows are summed over groups of edges: weights and group indices must list the edges in the same order, or a
    # uniform voltage does not stay uniform and charge is not conserved at the branch points
    # the edge table that the conductances and (for jax.sparse) the matrix are built from attaches every branch point to the LAST
    # compartment of the parent and the FIRST of each child (shared with C01/C12/C13/C15)
    col.rule("R-C02-ends", "branch-point edges attach at each branch's own first / last compartment", 4)
    c01_solver._ends(repo, col, "R-C02-ends")
    c01_solver.category_major(repo, col, "R-C02-ends")
    col.rule("R-C02-levels", "level bookkeeping, branch-point grouping and within-branch edge tables", 8)
    c01_solver._levels(repo, col, "R-C02-levels")


def channel_current_rows(repo, col, R):
    """Module._channel_currents: inside the loop over the channels, every gather of a state / parameter / the voltage and every
    scatter into the accumulated voltage- and constant terms and into the channel's current use ONE row selector (the rows where
    the channel is present), and every scatter ACCUMULATES (`.add`): several channels write into one compartment (and into one
    shared current such as `i_Na`); `.set` would keep only the last channel's contribution -- charge carried by the others is lost."""
    from . import idx
    from sa.terms import T, fuse_comprehensions as _fuse
    fi = repo.method("Module", "_channel_currents")
    ex = idx.expander(repo, fi)
    loops = [n for n in walk_no_nested(fi.node) if isinstance(n, ast.For) and any(
        isinstance(c, ast.Attribute) and c.attr == "compute_current" for c in ast.walk(n))]
    if not loops:
        raise AnalysisError("Module._channel_currents: the loop over the channels that calls compute_current vanished")
    loop = loops[0]

    def N(node):
        return _fuse(idx.inline(repo, fi, ex.term(node)))
    sel = None   # the row selector: derived from the presence column of the loop's channel
    gathers, scatters = [], []
    for n in ast.walk(loop):
        if isinstance(n, ast.Subscript) and isinstance(n.ctx, ast.Load):
            t = N(n)
            if t.op != "sub":
                continue
            base, rows = t.args
            # dict[key][rows] on the state / parameter dictionaries, voltages[rows]
            is_tab = base.op == "sub" and base.args[0].op == "param" and base.args[0].name in ("states", "params")
            if is_tab and rows.op not in ("const", "slice") and not (isinstance(n.value, ast.Attribute) and n.value.attr == "at"):
                gathers.append((n, rows))
        elif isinstance(n, ast.Call) and isinstance(n.func, ast.Attribute) and n.func.attr in ("add", "set", "multiply") and \
                isinstance(n.func.value, ast.Subscript) and isinstance(n.func.value.value, ast.Attribute) and n.func.value.value.attr == "at":
            scatters.append((n, N(n.func.value.slice), n.func.attr))
    for n, rows in gathers + [(n_, r_) for n_, r_, _ in scatters]:
        if T.find(rows, lambda x: x.op == "attr" and x.name == "_name") is not None and \
                T.find(rows, lambda x: x.op == "const" and x.name == "global_comp_index") is not None:
            sel = rows
            break
    if sel is None or len(gathers) < 3 or len(scatters) < 3:
        raise AnalysisError(f"Module._channel_currents: row selector / gathers ({len(gathers)}) / scatters ({len(scatters)}) not recognised")
    # what is handed to compute_current: entries of the local dictionaries filled in the loop are gathered arrays, never whole ones
    entries = []   # (statement / expression, label, value expression) of every entry put into a local dictionary
    for n in ast.walk(loop):
        if isinstance(n, ast.Assign) and isinstance(n.targets[0], ast.Subscript) and isinstance(n.targets[0].value, ast.Name):
            entries.append((n, unparse(n.targets[0]), n.value))
        elif isinstance(n, ast.DictComp):      # {s: states[s][rows] for s in names}
            entries.append((n, "{" + unparse(n.key) + ": ...}", n.value))
        elif isinstance(n, ast.Dict):          # {"radius": params["radius"][rows], ...}
            for k_, v_ in zip(n.keys, n.values):
                if k_ is not None:
                    entries.append((v_, "{" + unparse(k_) + ": ...}", v_))
    for n, lab_, val_ in entries:
        if True:
            v = N(val_)
            if T.find(v, lambda x: x.op == "param" and x.name in ("states", "params")) is None:
                continue
            if T.find(v, lambda x: x.op == "mcall" and x.name in ("add", "set")) is not None:
                continue  # a scatter (checked below)
            whole = v.op == "sub" and v.args[0].op == "param" and v.args[0].name in ("states", "params")
            col.check(not whole, R, fi, f"`{lab_[:40]}` holds the entries of the channel's own rows", "dict[key][rows]",
                      f"`{unparse(n)[:70]}` hands the whole array (all compartments) to the channel: rows of compartments that do not carry the "
                      f"channel are read, and the result no longer has the length of the channel's row selector", node=n)
    # ... and the dictionaries handed to compute_current are those local ones, not the module-wide `states` / `params`
    for n in ast.walk(loop):
        if isinstance(n, ast.Call) and any(isinstance(c, ast.Attribute) and c.attr == "compute_current" for c in ast.walk(n.func)):
            for a_ in n.args:
                v = N(a_)
                if v.op == "param" and v.name in ("states", "params"):
                    col.bad(R, fi, f"`{unparse(a_)[:40]}` handed to compute_current holds the entries of the channel's own rows",
                            f"`{unparse(n)[:70]}` hands the module-wide `{v.name}` dictionary (all compartments) to the channel", node=n)
    for n, rows in gathers:
        col.check(rows.key() == sel.key(), R, fi, f"`{unparse(n)[:50]}` is gathered at the channel's own rows", "one row selector",
                  f"`{unparse(n)[:70]}` is gathered with `{rows.short(60)}`, the channel's rows are `{sel.short(60)}`", node=n)
    for n, rows, op in scatters:
        col.check(rows.key() == sel.key(), R, fi, f"`{unparse(n.func)[:50]}` is scattered to the channel's own rows", "one row selector",
                  f"`{unparse(n)[:70]}` is scattered to `{rows.short(60)}`, the channel's rows are `{sel.short(60)}`", node=n)
        col.check(op == "add", R, fi, f"`{unparse(n.func)[:50]}` accumulates over the channels", ".at[rows].add(...)",
                  f"`{unparse(n)[:70]}` uses `.{op}`: the contribution of every earlier channel in the same compartments (or to the same shared "
                  f"current) is overwritten", node=n)


def _stim(repo, col, R="R-C02-stim"):
    fi = repo.method("Module", "_get_external_input")
    ex = Expander(repo, fi)
    conv = [c for c in ex.calls if isinstance(c.func, ast.Name) and c.func.id == "convert_point_process_to_distributed"]
    scat = [c for c in ex.calls if unparse(c.func).split(".")[-1] in ("scatter_add", "scatter")]
    sets = [c for c in ex.calls if isinstance(c.func, ast.Attribute) and c.func.attr in ("set", "add")
            and isinstance(c.func.value, ast.Subscript) and isinstance(c.func.value.value, ast.Attribute)
            and c.func.value.value.attr == "at"]
    if not conv:
        raise AnalysisError("_get_external_input no longer calls convert_point_process_to_distributed")
    c = conv[0]
    args = [ex.term(a) for a in c.args]
    if len(args) != 3:
        col.unk(R, fi, c, "unexpected arity")
        return
    def gather_idx(t):
        return t.args[1] if t.op == "sub" else None
    gr, gl = gather_idx(args[1]), gather_idx(args[2])
    col.check(args[0].op == "param", R, fi, "current argument is the stimulus itself",
              "the raw stimulus (nA) is converted", f"current argument is {args[0].short()}", node=c)
    ok = gr is not None and gl is not None and gr.key() == gl.key()
    col.check(ok, R, fi, "radius and length gathered with one index array",
              "radius[i] and length[i] use the same i", "radius and length are gathered with different indices", node=c)
    # row j of the stimulus belongs to entry j of the index list: both are used in the order given (or permuted alike)
    def spine(t):
        while True:
            if t.op in ("mcall", "call") and t.name in ("asarray", "array", "astype", "expand_dims", "reshape", "squeeze", "ravel", "flatten") and t.args:
                t = next((a_ for a_ in t.args if a_.op != "free"), t.args[0])
            elif t.op == "sub" and (T.find(t.args[1], lambda x: x.op == "const" and x.name is None) is not None or t.args[1].op == "slice"):
                t = t.args[0]     # x[:, None], x[None], x[:]
            else:
                return t
    if gr is not None:
        sp_i, sp_v = spine(gr), spine(args[0])
        same_order = sp_i.op == "param" and sp_v.op == "param"
        alike = sp_i.op == "sub" and sp_v.op == "sub" and sp_i.args[1].key() == sp_v.args[1].key() and spine(sp_i.args[0]).op == "param" and spine(sp_v.args[0]).op == "param"
        col.add(R, fi, "row j of the stimulus is delivered to entry j of the index list", "DISCHARGED" if (same_order or alike) else
                ("VIOLATED" if sp_v.op == "param" and T.find(sp_i, lambda x: x.op in ("mcall", "call") and x.name in ("argsort", "sort", "unique", "flip", "roll", "permutation")) is not None
                 else "UNDECIDED"),
                "both used in the order given" if same_order else ("both permuted alike" if alike else
                f"the index list is re-ordered ({sp_i.short(70)}) but the stimulus rows are not: stimulus j reaches the j-th entry of the re-ordered list, "
                f"i.e. another compartment than the one it was attached to (the total charge is unchanged)"), node=c)
    bases = {"radius": args[1].args[0] if args[1].op == "sub" else None,
             "length": args[2].args[0] if args[2].op == "sub" else None}
    params = fi.params
    col.check(all(b is not None and b.op == "param" for b in bases.values())
              and bases["radius"].name != bases["length"].name, R, fi, "radius / length arguments",
              "second argument gathers the radius parameter, third the length parameter",
              f"arguments are {args[1].short()} and {args[2].short()}", node=c)
    # additive scatter with the same index
    if scat:
        s = scat[0]
        name = unparse(s.func).split(".")[-1]
        sargs = [ex.term(a) for a in s.args]
        idx = sargs[1]
        idx_base = T.find(idx, lambda x: gr is not None and x.key() == gr.key())
        col.check(name == "scatter_add", R, fi, "scatter is additive",
                  "several stimuli on one compartment add", f"`{name}` overwrites instead of adding", node=s)
        col.check(idx_base is not None, R, fi, "scatter index == gather index",
                  "the current is injected into the compartment whose area it was divided by",
                  f"scatter index {idx.short()} differs from the gather index {gr.short() if gr else '?'}", node=s)
        zero = sargs[0]
        col.check(any(x.op == "mcall" and x.name == "zeros_like" for x in zero.walk()), R, fi,
                  "scatter starts from zeros", "base of the scatter is zero", f"base of the scatter is {zero.short()}", node=s)
        upd = sargs[2]
        col.check(any(x.node is c for x in upd.walk()), R, fi, "scattered values are the converted currents",
                  "the distributed current is what is scattered", f"scattered value is {upd.short()}", node=s)
    elif sets:
        s = sets[0]
        col.check(s.func.attr == "add", R, fi, "scatter is additive",
                  "several stimuli on one compartment add", "`.at[].set` overwrites instead of adding", node=s)
        idx = ex.term(s.func.value.slice)
        col.check(gr is not None and idx.key() == gr.key(), R, fi, "scatter index == gather index",
                  "same index", f"scatter index {idx.short()} differs from the gather index", node=s)
    else:
        col.unk(R, fi, "_get_external_input", "no scatter found", node=fi.node)
    # call site in step: which arrays are passed
    st = repo.method("Module", "step")
    ex2 = Expander(repo, st)
    calls = [c2 for c2 in ex2.calls if isinstance(c2.func, ast.Attribute) and c2.func.attr == "_get_external_input"]
    if not calls:
        raise AnalysisError("Module.step no longer calls _get_external_input")
    a = [ex2.term(x) for x in calls[0].args]
    want = {1: ("external_inds", "i"), 2: ("externals", "i"), 3: ("params", "radius"), 4: ("params", "length")}
    for i, (d, k) in want.items():
        if i >= len(a):
            col.unk(R, st, calls[0], "unexpected arity")
            break
        t = a[i]
        ok = t.op == "sub" and t.args[0].op == "param" and t.args[0].name == d and t.args[1].op == "const" and t.args[1].name == k
        col.check(ok, R, st, f"_get_external_input argument {i} = {d}['{k}']",
                  "stimulus indices, stimulus values, radius and length are passed in their roles",
                  f"argument {i} is {t.short()}, expected {d}['{k}']", node=calls[0])
