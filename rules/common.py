"""Cross-cutting rules applied to every property on the files it is anchored in."""
from __future__ import annotations

import ast
import importlib
import json
import os

from sa.core import VERIF, AnalysisError

# (function, parameter) pairs that are unused on the pinned tree, confirmed by reading: interface uniformity
# (all back ends / all elimination steps share one signature) or documented "not yet implemented".
UNUSED_OK = {
    ("step_voltage_explicit", "internal_node_inds"): "uniform back-end signature (solver_kwargs is passed to every stepper)",
    ("_voltage_vectorfield", "par_inds"): "uniform back-end signature; forward Euler refuses branched cells",
    ("_voltage_vectorfield", "child_inds"): "uniform back-end signature; forward Euler refuses branched cells",
    ("_voltage_vectorfield", "solver"): "uniform back-end signature",
    ("_voltage_vectorfield", "delta_t"): "the caller multiplies the vector field by delta_t",
    ("_voltage_vectorfield", "idx"): "uniform back-end signature",
    ("_voltage_vectorfield", "debug_states"): "debug hook",
    ("_triang_branched", "debug_states"): "debug hook",
    ("_backsub_branched", "uppers"): "already eliminated by the triangulation",
    ("_backsub_branched", "branchpoint_conds_parents"): "already eliminated by the triangulation",
    ("_backsub_branched", "branchpoint_weights_children"): "already eliminated by the triangulation",
    ("_backsub_branched", "debug_states"): "debug hook",
    ("_eliminate_parents_upper", "ncomp_per_branch"): "the indexer knows the per-branch counts",
    ("_eliminate_parents_lower", "ncomp_per_branch"): "the indexer knows the per-branch counts",
    ("Module.copy", "reset_index"): "documented as not implemented",
    ("Module.get_all_parameters", "voltage_solver"): "both back ends use the same conductance format",
    ("Module._channel_currents", "delta_t"): "signature shared with the state update",
    ("Module._step_synapse", "syn_channels"): "no-op for modules without synapses",
    ("Module._step_synapse", "params"): "no-op for modules without synapses",
    ("Module._step_synapse", "delta_t"): "no-op for modules without synapses",
    ("Module._step_synapse", "edges"): "no-op for modules without synapses",
    ("Network._synapse_currents", "delta_t"): "signature shared with the state update",
    ("Module._synapse_currents", "syn_channels"): "no-op for modules without synapses",
    ("Module._synapse_currents", "params"): "no-op for modules without synapses",
    ("Module._synapse_currents", "delta_t"): "no-op for modules without synapses",
    ("Module._synapse_currents", "edges"): "no-op for modules without synapses",
}
SKIP_FILES = ("jaxley/utils/plot_utils.py", "jaxley/utils/debug_solver.py", "jaxley/utils/colors.py")
INTERFACE_METHODS = {"update_states", "compute_current", "init_state", "forward", "inverse", "__init__", "__call__",
                     "__getattr__", "__exit__", "__enter__", "wrapper", "__getitem__", "vis"}

_anchors = None
_wheres = {}


def anchors(prop):
    global _anchors
    if _anchors is None:
        _anchors = {}
        for line in open(os.path.join(VERIF, "properties.jsonl"), encoding="utf-8"):
            p = json.loads(line)
            _anchors[p["id"]] = p["anchors"]["files"]
            _wheres[p["id"]] = [m["where"] for m in p["anchors"].get("mechanism", [])]
    return _anchors.get(prop, [])


_scope_cache = {}


def _callgraph(repo):
    """function key -> set of callee keys.  Receiver-aware for Module methods (sa.effects), name resolution for
    module-level functions (also when only referenced: partial(f, ...), vmap(f)), class instantiation -> __init__,
    dynamic dispatch of the mechanism interface."""
    if "cg" in _scope_cache:
        return _scope_cache["cg"]
    from sa.effects import Effects
    from sa.core import FuncInfo, ClassInfo
    eff = Effects(repo)
    g = {}
    for fi in repo.all_functions():
        k = (fi.file, fi.qual)
        out = set()
        mi = repo.mods[fi.file]
        for n in ast.walk(fi.node):
            if isinstance(n, ast.Name) and isinstance(n.ctx, ast.Load):
                r = repo.resolve_name(mi, n.id)
                if isinstance(r, FuncInfo):
                    out.add((r.file, r.qual))
                elif isinstance(r, ClassInfo):
                    for b in repo.mro(r.name):
                        if "__init__" in b.methods:
                            out.add((b.file, b.methods["__init__"].qual))
                            break
        try:
            ex = eff.expander(fi)
            stack = [ex]
            while stack:
                e = stack.pop()
                stack.extend(e.nested.values())
                for c in e.calls:
                    t = e.term(c)
                    if t.op == "mcall":
                        for cf in eff.resolve_method(t, e.fi if hasattr(e, "fi") else fi):
                            out.add((cf.file, cf.qual))
        except Exception:  # the expander cannot handle this function: name-based edges only
            pass
        # super().__init__ / super().method
        for n in ast.walk(fi.node):
            if isinstance(n, ast.Call) and isinstance(n.func, ast.Attribute) and isinstance(n.func.value, ast.Call) and \
                    isinstance(n.func.value.func, ast.Name) and n.func.value.func.id == "super" and fi.cls:
                for b in repo.mro(fi.cls)[1:]:
                    if n.func.attr in b.methods:
                        out.add((b.file, b.methods[n.func.attr].qual))
                        break
        g[k] = out
    _scope_cache["cg"] = g
    return g


def _entries(repo, prop):
    """Functions named by the property's anchors (`where` strings), resolved against the repository."""
    import fnmatch
    import re
    allf = list(repo.all_functions())
    files = anchor_files(prop)
    ents, unresolved = set(), []
    for where in anchor_wheres(prop):
        for seg in where.split(";"):
            fmention = re.findall(r"[\w/]+\.py", seg)
            segfiles = [f for f in repo.mods if any(f.endswith("/" + m.split("/")[-1]) or f == m for m in fmention)] or files
            cands = [f for f in allf if f.file in segfiles]
            rest = re.sub(r"[\w/]+\.py", " ", seg)
            rest = re.sub(r"\bl\.\s*\d+(-\d+)?(,\s*\d+(-\d+)?)*", " ", rest)
            toks = []
            for m in re.finditer(r"([A-Za-z_*][\w*.]*)(\((\w+)\))?", rest):
                toks.append(m.group(1))
                if m.group(3):
                    toks.append(m.group(1) + m.group(3))
            hit = False
            for tok in toks:
                tok = tok.strip(".")
                for f in cands:
                    names = {f.name, f.qual}
                    if any(fnmatch.fnmatchcase(nm, tok) for nm in names) or \
                            ("." in tok and fnmatch.fnmatchcase(f.qual, "*" + tok.split(".", 1)[1]) and tok.split(".")[0] in (f.cls or "", "*")):
                        ents.add((f.file, f.qual))
                        hit = True
                # nested function named in the anchor (init_fn, _body_fun): its enclosing function
                if not hit:
                    for f in cands:
                        if any(isinstance(x, ast.FunctionDef) and x.name == tok and x is not f.node for x in ast.walk(f.node)):
                            ents.add((f.file, f.qual))
                            hit = True
            if not hit and fmention:
                for f in cands:
                    ents.add((f.file, f.qual))
                unresolved.append(seg.strip())
    return ents, unresolved


def scope(repo, prop):
    """The functions a property is about: the anchored functions and everything they (transitively) call."""
    if prop in _scope_cache:
        return _scope_cache[prop]
    g = _callgraph(repo)
    ents, unresolved = _entries(repo, prop)
    seen = set(ents)
    todo = list(ents)
    while todo:
        k = todo.pop()
        for c in g.get(k, ()):
            if c not in seen:
                seen.add(c)
                todo.append(c)
    # ownership: a function that some property anchors by name belongs to those properties only; an unanchored helper
    # belongs to every property that reaches it
    if "owners" not in _scope_cache:
        own = {}
        for q in anchors_all():
            e, _u = _entries(repo, q)
            for k in e:
                own.setdefault(k, set()).add(q)
        _scope_cache["owners"] = own
    own = _scope_cache["owners"]
    seen = {k for k in seen if k not in own or prop in own[k]}
    _scope_cache[prop] = (seen, ents, unresolved)
    return _scope_cache[prop]


def anchors_all():
    anchors("C01")
    return sorted(_anchors)


def anchor_files(prop):
    return anchors(prop)


def anchor_wheres(prop):
    anchors(prop)
    return _wheres.get(prop, [])


def dead_parameters(repo, col, prop):
    """A parameter that a function accepts but never reads cannot influence the result: every
    property quantified over that input fails for it (e.g. `min_radius`, `delta_t`, `solver`)."""
    R = f"R-{prop}-params"
    sc, ents, _ = scope(repo, prop)
    n = 0
    for fi in repo.all_functions():
        if (fi.file, fi.qual) not in sc or fi.file in SKIP_FILES or fi.name in INTERFACE_METHODS:
            continue
        a = fi.node.args
        ps = [x.arg for x in a.posonlyargs + a.args + a.kwonlyargs if x.arg not in ("self", "cls")]
        if not ps:
            continue
        body = [s for s in fi.node.body if not (isinstance(s, ast.Expr) and isinstance(s.value, ast.Constant))]
        if len(body) == 1 and isinstance(body[0], (ast.Raise, ast.Pass)):
            continue  # abstract / not implemented
        if len(body) == 1 and isinstance(body[0], ast.Return) and isinstance(body[0].value, (ast.Dict, ast.Tuple, ast.Constant)) \
                and not any(isinstance(x, ast.Name) for x in ast.walk(body[0].value)):
            continue  # trivial default implementation (`return {}`)
        used = {x.id for x in ast.walk(fi.node) if isinstance(x, ast.Name) and isinstance(x.ctx, ast.Load)}
        for p in ps:
            n += 1
            if p in used:
                continue
            why = UNUSED_OK.get((fi.qual, p))
            col.add(R, fi, f"parameter `{p}` of {fi.qual} takes effect", "DISCHARGED" if why else "VIOLATED",
                    f"unused by design: {why}" if why else
                    f"`{fi.qual}` accepts `{p}` but never reads it: the result cannot depend on it, although callers pass it "
                    f"and the documentation promises an effect", node=fi.node)
    col.rule(R, "every parameter of the functions the property is about (anchored functions and their transitive callees) "
                "is read (listed exceptions with reasons)", 0)
    col.info["parameters_examined"] = n
    col.info["scope"] = {"entry_functions": sorted(q for _f, q in ents), "functions_in_scope": len(sc)}
    if not ents:
        raise AnalysisError(f"no anchored function of {prop} resolves in the repository")


def _own(n):
    todo = list(ast.iter_child_nodes(n))
    while todo:
        x = todo.pop()
        yield x
        if isinstance(x, (ast.FunctionDef, ast.Lambda, ast.For, ast.While)):
            continue
        todo.extend(ast.iter_child_nodes(x))


def _has_effect(st) -> bool:
    for n in ast.walk(st):
        if isinstance(n, ast.Assign) and any(isinstance(t, (ast.Subscript, ast.Attribute)) for t in n.targets):
            return True
        if isinstance(n, ast.Assign) and isinstance(n.value, ast.Call) and isinstance(n.value.func, ast.Attribute) \
                and n.value.func.attr in ("set", "add"):
            return True
        if isinstance(n, ast.AugAssign):
            return True
        if isinstance(n, ast.Call) and isinstance(n.func, ast.Attribute) and n.func.attr in ("append", "extend", "update", "pop", "remove"):
            return True
    return False


EARLY_EXIT_OK = {("_split_long_branches", "while"): "gives up splitting after 10 sub-branches with a warning (documented)"}


def early_exits(repo, col, prop):
    """A `for` loop over a registry (channels, synapse types, parameters, cells, keys, ...) whose body has effects
    must run to completion: a `break`/`return` placed before those effects silently skips every later element."""
    R = f"R-{prop}-loops"
    sc, ents, _ = scope(repo, prop)
    n = 0
    for fi in repo.all_functions():
        if (fi.file, fi.qual) not in sc or fi.file in SKIP_FILES:
            continue
        for lp in ast.walk(fi.node):
            if not isinstance(lp, ast.For):
                continue
            n += 1
            body = lp.body
            exits = []
            for i, st in enumerate(body):
                if isinstance(st, (ast.For, ast.While)):
                    continue  # an inner loop's break leaves the inner loop only
                for x in ([st] if isinstance(st, (ast.Break, ast.Return)) else list(_own(st))):
                    if isinstance(x, (ast.Break, ast.Return)):
                        exits.append((i, x))
            for i, x in exits:
                later_effect = any(_has_effect(s2) for s2 in body[i + 1:])
                if not later_effect:
                    continue
                from sa.core import unparse
                col.bad(R, fi, f"`{type(x).__name__.lower()}` in `{unparse(lp).splitlines()[0][:60]}` before the loop body's effects",
                        f"the loop `{unparse(lp).splitlines()[0][:70]}` leaves with `{type(x).__name__.lower()}` before the statements "
                        f"that store results: once the condition holds for one element, all remaining elements are skipped "
                        f"(e.g. every channel inserted after a stateless one keeps its default states)", node=x)
            if not exits:
                pass
    col.rule(R, "loops with effects run to completion (no break/return before the effects)", 0)
    col.info["loops_examined"] = n


def must_calls(repo, col, prop):
    """Calls that re-establish an invariant must happen on every normal path (table in rules/mustcall_table.py)."""
    from sa.mustcall import must_call, first_gap
    from sa.core import FuncInfo, unparse
    from .mustcall_table import TABLE
    R = f"R-{prop}-mustcall"
    rows = [r for r in TABLE if prop in r[0]]
    if not rows:
        return
    byqual = {}
    for fi in repo.all_functions():
        byqual.setdefault(fi.qual, []).append(fi)
    memo = {}

    def holds(fi, recv, name, depth=0):
        k = (fi.file, fi.qual, recv, name)
        if k in memo:
            return memo[k]
        memo[k] = False  # recursion guard

        def pred(c):
            f = c.func
            if isinstance(f, ast.Attribute) and f.attr == name and (recv is None or unparse(f.value) == recv):
                return True
            if isinstance(f, ast.Name) and f.id == name and recv is None:
                return True
            if depth >= 3:
                return False
            # a helper that itself always makes the call
            g = None
            if isinstance(f, ast.Name):
                r = repo.resolve_name(repo.mods[fi.file], f.id)
                g = r if isinstance(r, FuncInfo) else None
                if g is None:
                    for n in ast.walk(fi.node):
                        if isinstance(n, ast.FunctionDef) and n.name == f.id and n is not fi.node:
                            g = FuncInfo(n.name, fi.qual + ".<locals>." + n.name, fi.file, n, cls=fi.cls, parent=fi)
            elif isinstance(f, ast.Attribute) and unparse(f.value) in ("self", "super()") and fi.cls:
                for c_ in repo.mro(fi.cls):
                    if f.attr in c_.methods:
                        g = c_.methods[f.attr]
                        break
            if g is None or g.node is fi.node:
                return False
            r2 = recv
            return holds(g, r2, name, depth + 1)

        memo[k] = must_call(fi.node, pred)
        return memo[k]

    for _props, qual, (recv, name), why in rows:
        fis = byqual.get(qual)
        if not fis:
            raise AnalysisError(f"must-call table: function {qual} not found")
        fi = fis[0]
        ok = holds(fi, recv, name)
        gap = None if ok else first_gap(fi.node, lambda c: isinstance(c.func, (ast.Attribute, ast.Name)) and
                                        (c.func.attr if isinstance(c.func, ast.Attribute) else c.func.id) == name)
        col.check(ok, R, fi, f"{qual} calls {(recv + '.') if recv else ''}{name} on every normal path", why,
                  f"{qual} can return without calling {(recv + '.') if recv else ''}{name} ({why}): the call is missing, conditional, "
                  f"inside a loop that may not run, or behind an early return", node=gap or fi.node)
    col.rule(R, "invariant-restoring calls happen on every normal path (must-pass-through)", len(rows))


def run_all(prop, repo, col, tier):
    mod = importlib.import_module(f"rules.{prop.lower()}")
    pending = None
    try:
        mod.check(repo, col, tier)
    except AnalysisError as e:
        pending = e  # the property's own analysis lost an anchor: still run the cross-cutting rules, then report it
    dead_parameters(repo, col, prop)
    early_exits(repo, col, prop)
    must_calls(repo, col, prop)
    if pending is not None:
        raise pending
