"""Cross-cutting rules applied to every property on the files it is anchored in."""
from __future__ import annotations

import ast
import importlib
import json
import os

from sa.core import VERIF, AnalysisError, walk_no_nested

# (function, parameter) pairs that are unused on the pinned tree, confirmed by reading: interface uniformity
# (all back ends / all elimination steps share one signature) or documented "not yet implemented".
UNUSED_OK = {
    ("step_voltage_explicit", "internal_node_inds"): "uniform back-end signature (solver_kwargs is passed to every stepper)",
    ("_voltage_vectorfield", "par_inds"): "uniform back-end signature; forward Euler refuses branched cells",
    ("_voltage_vectorfield", "child_inds"): "uniform back-end signature; forward Euler refuses branched cells",
    ("_voltage_vectorfield", "solver"): "uniform back-end signature",
    ("_voltage_vectorfield", "delta_t"): "the caller multiplies the vector field by delta_t",
    ("_voltage_vectorfield", "idx"): "uniform back-end signature",
    ("_voltage_vectorfield", "debug_states"): "debug hook",
    ("_triang_branched", "debug_states"): "debug hook",
    ("_backsub_branched", "uppers"): "already eliminated by the triangulation",
    ("_backsub_branched", "branchpoint_conds_parents"): "already eliminated by the triangulation",
    ("_backsub_branched", "branchpoint_weights_children"): "already eliminated by the triangulation",
    ("_backsub_branched", "debug_states"): "debug hook",
    ("_eliminate_parents_upper", "ncomp_per_branch"): "the indexer knows the per-branch counts",
    ("_eliminate_parents_lower", "ncomp_per_branch"): "the indexer knows the per-branch counts",
    ("Module.copy", "reset_index"): "documented as not implemented",
    ("Module.get_all_parameters", "voltage_solver"): "both back ends use the same conductance format",
    ("Module._channel_currents", "delta_t"): "signature shared with the state update",
    ("Module._step_synapse", "syn_channels"): "no-op for modules without synapses",
    ("Module._step_synapse", "params"): "no-op for modules without synapses",
    ("Module._step_synapse", "delta_t"): "no-op for modules without synapses",
    ("Module._step_synapse", "edges"): "no-op for modules without synapses",
    ("Network._synapse_currents", "delta_t"): "signature shared with the state update",
    ("Module._synapse_currents", "syn_channels"): "no-op for modules without synapses",
    ("Module._synapse_currents", "params"): "no-op for modules without synapses",
    ("Module._synapse_currents", "delta_t"): "no-op for modules without synapses",
    ("Module._synapse_currents", "edges"): "no-op for modules without synapses",
}
SKIP_FILES = ("jaxley/utils/plot_utils.py", "jaxley/utils/debug_solver.py", "jaxley/utils/colors.py")
INTERFACE_METHODS = {"update_states", "compute_current", "init_state", "forward", "inverse", "__init__", "__call__",
                     "__getattr__", "__exit__", "__enter__", "wrapper", "__getitem__", "vis"}

_anchors = None
_wheres = {}


def anchors(prop):
    global _anchors
    if _anchors is None:
        _anchors = {}
        for line in open(os.path.join(VERIF, "properties.jsonl"), encoding="utf-8"):
            p = json.loads(line)
            _anchors[p["id"]] = p["anchors"]["files"]
            _wheres[p["id"]] = [m["where"] for m in p["anchors"].get("mechanism", [])]
    return _anchors.get(prop, [])


_scope_cache = {}
EXTRA_OWNERS = {
    "C01": ("Network._init_morph_jaxley_spsolve", "Network._init_morph_jax_spsolve", "merge_cells", "remap_to_consecutive", "step_voltage_implicit_with_jaxley_spsolve", "step_voltage_implicit_with_jax_spsolve", "step_voltage_explicit",
            "compute_axial_conductances", "integrate", "build_init_and_step_fn"),
    "C07": ("nested_checkpoint_scan", "_inner_nested_scan", "build_init_and_step_fn"),
    "C06": ("build_init_and_step_fn",),
    "C02": ("Network._init_morph_jaxley_spsolve", "Cell._init_morph_jaxley_spsolve", "remap_index_to_masked", "merge_cells",
            "Network._init_morph_jax_spsolve", "Cell._init_morph_jax_spsolve",
            "step_voltage_implicit_with_jaxley_spsolve", "step_voltage_implicit_with_jax_spsolve"),
    "C12": ("merge_cells", "remap_to_consecutive", "compute_children_and_parents", "Network._init_morph_jaxley_spsolve",
            "Network._init_morph_jax_spsolve", "remap_index_to_masked", "compute_children_in_level", "compute_parents_in_level"),
    # the scheme that is asked for (solver=...) must reach Module.step: integrate -> build_init_and_step_fn -> step_fn -> Module.step
    "C15": ("step_voltage_implicit_with_jaxley_spsolve", "step_voltage_implicit_with_jax_spsolve", "Module.get_all_parameters",
            "integrate", "build_init_and_step_fn"),
    "C11": ("Module._external_input",),
    # several stimuli / clamps on one module accumulate in the module's own containers
    "C08": ("Module._external_input", "Module._data_external_input"),
    "C19": ("Module._external_input", "Module.delete_clamps", "Module.set_ncomp"),
    "C13": ("Module._iter_submodules",),
    "C20": ("Network._init_morph_jax_spsolve", "Network._append_multiple_synapses"),
    "C09": ("Module.data_set",),
    "C05": ("Module._step_channels_state", "Module._channel_currents", "Module.get_all_parameters"),
    # the time step that the gates are advanced with travels integrate -> step_fn -> Module.step -> _step_channels(_state) /
    # _step_synapse -> update_states: the plumbing belongs to C03 as well
    "C03": ("solve_gate_exponential", "exponential_euler", "solve_inf_gate_exponential", "integrate", "build_init_and_step_fn",
            "Module.step", "Module._step_channels", "Module._step_channels_state", "Module._step_synapse", "Network._step_synapse",
            "Network._step_synapse_state"),
    "C14": ("solve_gate_exponential", "exponential_euler", "solve_inf_gate_exponential"),
    # the radius functions of single-point sections are made by the padded generator
    "C16": ("_padded_radius_generating_fn",),
}


def _callgraph(repo):
    """function key -> set of callee keys.  Receiver-aware for Module methods (sa.effects), name resolution for
    module-level functions (also when only referenced: partial(f, ...), vmap(f)), class instantiation -> __init__,
    dynamic dispatch of the mechanism interface."""
    if "cg" in _scope_cache:
        return _scope_cache["cg"]
    from sa.effects import Effects
    from sa.core import FuncInfo, ClassInfo
    eff = Effects(repo)
    g = {}
    for fi in repo.all_functions():
        k = (fi.file, fi.qual)
        out = set()
        mi = repo.mods[fi.file]
        for n in ast.walk(fi.node):
            if isinstance(n, ast.Name) and isinstance(n.ctx, ast.Load):
                r = repo.resolve_name(mi, n.id)
                if isinstance(r, FuncInfo):
                    out.add((r.file, r.qual))
                elif isinstance(r, ClassInfo):
                    for b in repo.mro(r.name):
                        if "__init__" in b.methods:
                            out.add((b.file, b.methods["__init__"].qual))
                            break
        try:
            ex = eff.expander(fi)
            stack = [ex]
            while stack:
                e = stack.pop()
                stack.extend(e.nested.values())
                for c in e.calls:
                    t = e.term(c)
                    if t.op == "mcall":
                        for cf in eff.resolve_method(t, e.fi if hasattr(e, "fi") else fi):
                            out.add((cf.file, cf.qual))
        except Exception:  # the expander cannot handle this function: name-based edges only
            pass
        # super().__init__ / super().method
        for n in ast.walk(fi.node):
            if isinstance(n, ast.Call) and isinstance(n.func, ast.Attribute) and isinstance(n.func.value, ast.Call) and \
                    isinstance(n.func.value.func, ast.Name) and n.func.value.func.id == "super" and fi.cls:
                for b in repo.mro(fi.cls)[1:]:
                    if n.func.attr in b.methods:
                        out.add((b.file, b.methods[n.func.attr].qual))
                        break
        g[k] = out
    _scope_cache["cg"] = g
    return g


def _entries(repo, prop):
    """Functions named by the property's anchors (`where` strings), resolved against the repository."""
    import fnmatch
    import re
    allf = list(repo.all_functions())
    files = anchor_files(prop)
    ents, unresolved = set(), []
    for where in anchor_wheres(prop):
        for seg in where.split(";"):
            fmention = re.findall(r"[\w/]+\.py", seg)
            segfiles = [f for f in repo.mods if any(f.endswith("/" + m.split("/")[-1]) or f == m for m in fmention)] or files
            cands = [f for f in allf if f.file in segfiles]
            rest = re.sub(r"[\w/]+\.py", " ", seg)
            rest = re.sub(r"\bl\.\s*\d+(-\d+)?(,\s*\d+(-\d+)?)*", " ", rest)
            toks = []
            for m in re.finditer(r"([A-Za-z_*][\w*.]*)(\((\w+)\))?", rest):
                toks.append(m.group(1))
                if m.group(3):
                    toks.append(m.group(1) + m.group(3))
            hit = False
            for tok in toks:
                tok = tok.strip(".")
                for f in cands:
                    names = {f.name, f.qual}
                    if any(fnmatch.fnmatchcase(nm, tok) for nm in names) or \
                            ("." in tok and fnmatch.fnmatchcase(f.qual, "*" + tok.split(".", 1)[1]) and tok.split(".")[0] in (f.cls or "", "*")):
                        ents.add((f.file, f.qual))
                        hit = True
                # nested function named in the anchor (init_fn, _body_fun): its enclosing function
                if not hit:
                    for f in cands:
                        if any(isinstance(x, ast.FunctionDef) and x.name == tok and x is not f.node for x in ast.walk(f.node)):
                            ents.add((f.file, f.qual))
                            hit = True
            if not hit and fmention:
                for f in cands:
                    ents.add((f.file, f.qual))
                unresolved.append(seg.strip())
    return ents, unresolved


def scope(repo, prop):
    """The functions a property is about: the anchored functions and everything they (transitively) call."""
    if prop in _scope_cache:
        return _scope_cache[prop]
    g = _callgraph(repo)
    ents, unresolved = _entries(repo, prop)
    seen = set(ents)
    todo = list(ents)
    while todo:
        k = todo.pop()
        for c in g.get(k, ()):
            if c not in seen:
                seen.add(c)
                todo.append(c)
    # ownership: a function that some property anchors by name belongs to those properties only; an unanchored helper
    # belongs to every property that reaches it
    if "owners" not in _scope_cache:
        own = {}
        for q in anchors_all():
            e, _u = _entries(repo, q)
            for k in e:
                own.setdefault(k, set()).add(q)
        _scope_cache["owners"] = own
    own = _scope_cache["owners"]
    seen = {k for k in seen if k not in own or prop in own[k]}
    # functions another property anchors by name, but whose rules this property shares (see DESIGN 9.2): co-owned
    extra = EXTRA_OWNERS.get(prop, ())
    if extra:
        for f in repo.all_functions():
            if f.qual in extra or f.name in extra:
                seen.add((f.file, f.qual))
    _scope_cache[prop] = (seen, ents, unresolved)
    return _scope_cache[prop]


def anchors_all():
    anchors("C01")
    return sorted(_anchors)


def anchor_files(prop):
    return anchors(prop)


def anchor_wheres(prop):
    anchors(prop)
    return _wheres.get(prop, [])


def dead_parameters(repo, col, prop):
    """A parameter that a function accepts but never reads cannot influence the result: every
    property quantified over that input fails for it (e.g. `min_radius`, `delta_t`, `solver`)."""
    R = f"R-{prop}-params"
    sc, ents, _ = scope(repo, prop)
    n = 0
    for fi in repo.all_functions():
        if (fi.file, fi.qual) not in sc or fi.file in SKIP_FILES or fi.name in INTERFACE_METHODS:
            continue
        a = fi.node.args
        ps = [x.arg for x in a.posonlyargs + a.args + a.kwonlyargs if x.arg not in ("self", "cls")]
        if not ps:
            continue
        body = [s for s in fi.node.body if not (isinstance(s, ast.Expr) and isinstance(s.value, ast.Constant))]
        if len(body) == 1 and isinstance(body[0], (ast.Raise, ast.Pass)):
            continue  # abstract / not implemented
        if len(body) == 1 and isinstance(body[0], ast.Return) and isinstance(body[0].value, (ast.Dict, ast.Tuple, ast.Constant)) \
                and not any(isinstance(x, ast.Name) for x in ast.walk(body[0].value)):
            continue  # trivial default implementation (`return {}`)
        used = {x.id for x in ast.walk(fi.node) if isinstance(x, ast.Name) and isinstance(x.ctx, ast.Load)}
        # functions defined inside (scan bodies, block functions, helpers): a parameter they never read
        for inner in ast.walk(fi.node):
            if isinstance(inner, ast.FunctionDef) and inner is not fi.node and inner.name not in INTERFACE_METHODS:
                ia = inner.args
                ips = [x.arg for x in ia.posonlyargs + ia.args + ia.kwonlyargs if x.arg not in ("self", "cls", "_")]
                iused = {x.id for x in ast.walk(inner) if isinstance(x, ast.Name) and isinstance(x.ctx, ast.Load)}
                ibody = [s_ for s_ in inner.body if not (isinstance(s_, ast.Expr) and isinstance(s_.value, ast.Constant))]
                if len(ibody) == 1 and isinstance(ibody[0], (ast.Raise, ast.Pass)):
                    continue
                for p in ips:
                    n += 1
                    if p in iused or p.startswith("_"):
                        continue
                    why = UNUSED_OK.get((fi.qual + "." + inner.name, p))
                    col.add(R, fi, f"parameter `{p}` of the local function {fi.qual}.{inner.name} takes effect", "DISCHARGED" if why else "VIOLATED",
                            f"unused by design: {why}" if why else
                            f"the local function `{inner.name}` accepts `{p}` but never reads it (it uses a variable of the enclosing function "
                            f"instead): e.g. a scan block that ignores the carry it receives restarts every block from the initial state",
                            node=inner)
        for p in ps:
            n += 1
            if p in used:
                continue
            why = UNUSED_OK.get((fi.qual, p))
            col.add(R, fi, f"parameter `{p}` of {fi.qual} takes effect", "DISCHARGED" if why else "VIOLATED",
                    f"unused by design: {why}" if why else
                    f"`{fi.qual}` accepts `{p}` but never reads it: the result cannot depend on it, although callers pass it "
                    f"and the documentation promises an effect", node=fi.node)
    col.rule(R, "every parameter of the functions the property is about (anchored functions and their transitive callees) "
                "is read (listed exceptions with reasons)", 0)
    col.info["parameters_examined"] = n
    col.info["scope"] = {"entry_functions": sorted(q for _f, q in ents), "functions_in_scope": len(sc)}
    if not ents:
        raise AnalysisError(f"no anchored function of {prop} resolves in the repository")


def _own(n):
    todo = list(ast.iter_child_nodes(n))
    while todo:
        x = todo.pop()
        yield x
        if isinstance(x, (ast.FunctionDef, ast.Lambda, ast.For, ast.While)):
            continue
        todo.extend(ast.iter_child_nodes(x))


def _has_effect(st) -> bool:
    for n in ast.walk(st):
        if isinstance(n, ast.Assign) and any(isinstance(t, (ast.Subscript, ast.Attribute)) for t in n.targets):
            return True
        if isinstance(n, ast.Assign) and isinstance(n.value, ast.Call) and isinstance(n.value.func, ast.Attribute) \
                and n.value.func.attr in ("set", "add"):
            return True
        if isinstance(n, ast.AugAssign):
            return True
        if isinstance(n, ast.Call) and isinstance(n.func, ast.Attribute) and n.func.attr in ("append", "extend", "update", "pop", "remove"):
            return True
    return False


EARLY_EXIT_OK = {("_split_long_branches", "while"): "gives up splitting after 10 sub-branches with a warning (documented)"}


def early_exits(repo, col, prop):
    """A `for` loop over a registry (channels, synapse types, parameters, cells, keys, ...) whose body has effects
    must run to completion: a `break`/`return` placed before those effects silently skips every later element."""
    R = f"R-{prop}-loops"
    sc, ents, _ = scope(repo, prop)
    n = 0
    for fi in repo.all_functions():
        if (fi.file, fi.qual) not in sc or fi.file in SKIP_FILES:
            continue
        for lp in ast.walk(fi.node):
            if not isinstance(lp, ast.For):
                continue
            n += 1
            body = lp.body
            exits = []
            for i, st in enumerate(body):
                if isinstance(st, (ast.For, ast.While, ast.FunctionDef, ast.AsyncFunctionDef, ast.ClassDef)):
                    continue  # an inner loop's break leaves the inner loop only; a local function's return leaves that function
                for x in ([st] if isinstance(st, (ast.Break, ast.Return)) else list(_own(st))):
                    if isinstance(x, (ast.Break, ast.Return)):
                        exits.append((i, x))
            for i, x in exits:
                later_effect = any(_has_effect(s2) for s2 in body[i + 1:])
                if not later_effect:
                    continue
                from sa.core import unparse
                col.bad(R, fi, f"`{type(x).__name__.lower()}` in `{unparse(lp).splitlines()[0][:60]}` before the loop body's effects",
                        f"the loop `{unparse(lp).splitlines()[0][:70]}` leaves with `{type(x).__name__.lower()}` before the statements "
                        f"that store results: once the condition holds for one element, all remaining elements are skipped "
                        f"(e.g. every channel inserted after a stateless one keeps its default states)", node=x)
            if not exits:
                pass
    col.rule(R, "loops with effects run to completion (no break/return before the effects)", 0)
    col.info["loops_examined"] = n


def must_calls(repo, col, prop):
    """Calls that re-establish an invariant must happen on every normal path (table in rules/mustcall_table.py)."""
    from sa.mustcall import must_call, first_gap
    from sa.core import FuncInfo, unparse
    from .mustcall_table import TABLE
    R = f"R-{prop}-mustcall"
    rows = [r for r in TABLE if prop in r[0]]
    if not rows:
        return
    byqual = {}
    for fi in repo.all_functions():
        byqual.setdefault(fi.qual, []).append(fi)
    memo = {}

    def holds(fi, recv, name, depth=0):
        k = (fi.file, fi.qual, recv, name)
        if k in memo:
            return memo[k]
        memo[k] = False  # recursion guard

        # local aliases of a receiver (`base = self.base` ... `base.to_jax()`): names bound once to an attribute chain
        alias = {}
        stores_ = {}
        for n_ in ast.walk(fi.node):
            if isinstance(n_, ast.Name) and isinstance(n_.ctx, ast.Store):
                stores_[n_.id] = stores_.get(n_.id, 0) + 1
        for n_ in ast.walk(fi.node):
            if isinstance(n_, ast.Assign) and len(n_.targets) == 1 and isinstance(n_.targets[0], ast.Name) and stores_.get(n_.targets[0].id) == 1 \
                    and isinstance(n_.value, ast.Attribute):
                alias[n_.targets[0].id] = unparse(n_.value)

        def recv_text(v):
            txt = unparse(v)
            head = txt.split(".")[0]
            return alias[head] + txt[len(head):] if head in alias else txt

        def pred(c):
            f = c.func
            if isinstance(f, ast.Attribute) and f.attr == name and (recv is None or recv_text(f.value) == recv):
                return True
            if isinstance(f, ast.Name) and f.id == name and recv is None:
                return True
            if depth >= 3:
                return False
            # a helper that itself always makes the call
            g = None
            if isinstance(f, ast.Name):
                r = repo.resolve_name(repo.mods[fi.file], f.id)
                g = r if isinstance(r, FuncInfo) else None
                if g is None:
                    for n in ast.walk(fi.node):
                        if isinstance(n, ast.FunctionDef) and n.name == f.id and n is not fi.node:
                            g = FuncInfo(n.name, fi.qual + ".<locals>." + n.name, fi.file, n, cls=fi.cls, parent=fi)
            elif isinstance(f, ast.Attribute) and unparse(f.value) in ("self", "super()") and fi.cls:
                for c_ in repo.mro(fi.cls):
                    if f.attr in c_.methods:
                        g = c_.methods[f.attr]
                        break
            if g is None or g.node is fi.node:
                return False
            r2 = recv
            return holds(g, r2, name, depth + 1)

        memo[k] = must_call(fi.node, pred)
        return memo[k]

    for _props, qual, (recv, name), why in rows:
        fis = byqual.get(qual)
        if not fis:
            raise AnalysisError(f"must-call table: function {qual} not found")
        fi = fis[0]
        ok = holds(fi, recv, name)
        gap = None if ok else first_gap(fi.node, lambda c: isinstance(c.func, (ast.Attribute, ast.Name)) and
                                        (c.func.attr if isinstance(c.func, ast.Attribute) else c.func.id) == name)
        col.check(ok, R, fi, f"{qual} calls {(recv + '.') if recv else ''}{name} on every normal path", why,
                  f"{qual} can return without calling {(recv + '.') if recv else ''}{name} ({why}): the call is missing, conditional, "
                  f"inside a loop that may not run, or behind an early return", node=gap or fi.node)
    col.rule(R, "invariant-restoring calls happen on every normal path (must-pass-through)", len(rows))


NOT_FORWARDED_OK = {
    ("read_swc", "Branch.__init__", "ncomp"): "a branch is built from an explicit list of ncomp compartments (documented alternative to passing ncomp)",
    ("read_swc", "Branch.__init__", "nseg"): "deprecated alias of ncomp",
    ("Branch._init_morph_jax_spsolve", "comp_edges_to_indices", "n_nodes"): "n_nodes is the value RETURNED by this call (assigned afterwards); a lone branch has no edge-less cells",
    ("Cell._init_morph_jax_spsolve", "comp_edges_to_indices", "n_nodes"): "n_nodes is the value returned by this call",
    ("Compartment._init_morph_jax_spsolve", "comp_edges_to_indices", "n_nodes"): "n_nodes is the value returned by this call",
    # optional parameters whose name is also an attribute of the calling object
    ("Module._at_nodes", "View.__init__", "edges"): "a node selection restricts the nodes only; the edges follow from them",
    ("Module._at_edges", "View.__init__", "nodes"): "an edge selection restricts the edges only; the nodes follow from them",
    ("Branch._init_morph_jaxley_spsolve", "JaxleySolveIndexer.__init__", "ncomp_per_branch"): "a single branch is never padded: the fallback np.diff(cumsum_ncomp) is exact",
    ("Compartment._init_morph_jaxley_spsolve", "JaxleySolveIndexer.__init__", "ncomp_per_branch"): "a single compartment is never padded",
    ("Cell.__init__", "Branch.__init__", "ncomp"): "default branch of a cell built without branches",
}


_attr_cache = {}


def _self_attrs(repo, cname):
    """names assigned as attributes of self anywhere in the class and its bases"""
    if cname in _attr_cache:
        return _attr_cache[cname]
    out = set()
    for b in repo.mro(cname):
        for m in b.methods.values():
            for n in ast.walk(m.node):
                tg = n.targets if isinstance(n, ast.Assign) else ([n.target] if isinstance(n, (ast.AugAssign, ast.AnnAssign)) else [])
                for t in tg:
                    for x in ast.walk(t):
                        if isinstance(x, ast.Attribute) and isinstance(x.value, ast.Name) and x.value.id == "self":
                            out.add(x.attr)
    _attr_cache[cname] = out
    return out


def not_forwarded(repo, col, prop):
    """A call that omits an OPTIONAL parameter of a repository function although the caller holds a value of exactly that
    name (its own parameter or a local): the callee silently falls back to its default (`step_fn(...)` without the
    requested `delta_t`, an indexer built without `ncomp_per_branch`).  Five such sites exist on the pinned tree; each was
    read and is listed with its reason."""
    from sa.core import FuncInfo
    R = f"R-{prop}-forward"
    sc, ents, _ = scope(repo, prop)
    byname = {}
    for f in repo.all_functions():
        byname.setdefault(f.name, []).append(f)

    def callees(c, fi):
        f = c.func
        if isinstance(f, ast.Name):
            r = repo.resolve_name(repo.mods[fi.file], f.id)
            if isinstance(r, FuncInfo):
                return [(r, False)]
            if r is not None and hasattr(r, "methods"):
                for b in repo.mro(r.name):
                    if "__init__" in b.methods:
                        return [(b.methods["__init__"], True)]
            for n_ in ast.walk(fi.node):
                if isinstance(n_, ast.FunctionDef) and n_.name == f.id and n_ is not fi.node:
                    return [(FuncInfo(n_.name, fi.qual + ".<locals>." + n_.name, fi.file, n_, cls=None, parent=fi), False)]
            # a function VALUE obtained by unpacking the result of a repository function that returns local functions:
            #   init_fn, step_fn = build_init_and_step_fn(...)
            for n_ in ast.walk(fi.node):
                if isinstance(n_, ast.Assign) and isinstance(n_.targets[0], ast.Tuple) and isinstance(n_.value, ast.Call) and \
                        isinstance(n_.value.func, ast.Name):
                    pos = [i for i, t in enumerate(n_.targets[0].elts) if isinstance(t, ast.Name) and t.id == f.id]
                    fac = repo.resolve_name(repo.mods[fi.file], n_.value.func.id)
                    if pos and isinstance(fac, FuncInfo):
                        for r_ in ast.walk(fac.node):
                            if isinstance(r_, ast.Return) and isinstance(r_.value, ast.Tuple) and pos[0] < len(r_.value.elts) and \
                                    isinstance(r_.value.elts[pos[0]], ast.Name):
                                nm = r_.value.elts[pos[0]].id
                                for d_ in ast.walk(fac.node):
                                    if isinstance(d_, ast.FunctionDef) and d_.name == nm and d_ is not fac.node:
                                        return [(FuncInfo(nm, fac.qual + ".<locals>." + nm, fac.file, d_, cls=None, parent=fac), False)]
        if isinstance(f, ast.Attribute) and ast.unparse(f.value) in ("self", "self.base", "module", "super()", "view", "net", "cell"):
            c2 = byname.get(f.attr, [])
            if c2 and all(x.cls for x in c2):
                return [(c2[0], True)]
        return []

    n = 0
    for fi in repo.all_functions():
        if (fi.file, fi.qual) not in sc or fi.file in SKIP_FILES:
            continue
        held_params = set(fi.params) | {x.arg for x in fi.node.args.kwonlyargs}
        assigned = {}   # local name -> the assignments that bind it
        for node in ast.walk(fi.node):
            if isinstance(node, ast.Assign):
                for t in node.targets:
                    for x in ast.walk(t):
                        if isinstance(x, ast.Name):
                            assigned.setdefault(x.id, []).append(node)
        parent = {}
        for node in ast.walk(fi.node):
            for fld, val in ast.iter_fields(node):
                for ch in (val if isinstance(val, list) else [val]):
                    if isinstance(ch, ast.AST):
                        parent[id(ch)] = (node, fld)

        def arms(node):
            """the (if-statement, arm) pairs a node sits in"""
            out = {}
            cur = node
            while id(cur) in parent:
                par, fld = parent[id(cur)]
                if isinstance(par, ast.If) and fld in ("body", "orelse"):
                    out[id(par)] = fld
                cur = par
            return out

        def in_loop(node):
            cur = node
            while id(cur) in parent:
                cur = parent[id(cur)][0]
                if isinstance(cur, (ast.For, ast.While)):
                    return True
            return False

        def holds(name, call):
            """the caller holds a value under `name` when the call runs: a parameter, or a local bound by an assignment that can
            run before the call -- not one in the other arm of an if the call sits in, and not one that only comes later"""
            if name in held_params:
                return True
            ca = arms(call)
            for a_ in assigned.get(name, ()):
                aa = arms(a_)
                if any(k in ca and ca[k] != v for k, v in aa.items()):
                    continue
                if a_.lineno > call.lineno and not in_loop(call):
                    continue
                return True
            return False
        held = held_params | set(assigned)
        if fi.cls:
            # `nodes` / `edges` are the tables every module has; selection helpers take them as optional row filters
            held_attr = _self_attrs(repo, fi.cls) - {"nodes", "edges"}
        else:
            held_attr = set()
        for c in ast.walk(fi.node):
            if not isinstance(c, ast.Call) or any(isinstance(a, ast.Starred) for a in c.args) or any(k.arg is None for k in c.keywords):
                continue
            for g, is_method in callees(c, fi):
                a = g.node.args
                names = [x.arg for x in a.posonlyargs + a.args]
                if names and names[0] in ("self", "cls") and is_method:
                    names = names[1:]
                nd = len(a.defaults)
                with_def = set(names[len(names) - nd:]) if nd else set()
                with_def |= {k.arg for k, d in zip(a.kwonlyargs, a.kw_defaults) if d is not None}
                passed = set(names[:len(c.args)]) | {k.arg for k in c.keywords}
                for p in sorted(with_def):
                    if p in passed or (p not in held and p not in held_attr):
                        continue
                    if p in held and p not in held_attr and not holds(p, c):
                        continue
                    n += 1
                    why = NOT_FORWARDED_OK.get((fi.qual, g.qual, p))
                    col.add(R, fi, f"{fi.qual} -> {g.qual}: `{p}` held by the caller is passed on", "DISCHARGED" if why else "VIOLATED",
                            f"omitted by design: {why}" if why else
                            f"`{ast.unparse(c)[:70]}` does not pass `{p}` although {fi.qual} holds a value of that name: {g.qual} falls back to "
                            f"its default for `{p}` (the requested value is silently ignored)", node=c)
    col.rule(R, "a value the caller holds under the name of an optional parameter of the callee is passed on", 0)
    col.info["calls_omitting_a_held_optional_argument"] = n


ARG_NAME_OK = {
    # (caller, callee, argument name): reason  -- reviewed crossings
}


def arg_names(repo, col, prop):
    """Swapped arguments: a call passes a variable whose NAME is one of the callee's parameter names, but at the position (or
    under the keyword) of a DIFFERENT parameter -- `f(voltage_terms, voltages)` for `def f(voltages, voltage_terms)`.
    Names are the programmer's own statement of roles, in the caller and in the callee; when they cross, one side is
    wrong (Engler et al., 'beliefs').  Resolved callees only (repository functions, methods on self / module receivers,
    local functions, vmap(f)(...))."""
    from sa.core import FuncInfo
    R = f"R-{prop}-argnames"
    sc, ents, _ = scope(repo, prop)
    byname = {}
    for f in repo.all_functions():
        byname.setdefault(f.name, []).append(f)

    def callee_of(c, fi):
        f = c.func
        # vmap(g, ...)(args) / jit(g)(args)
        if isinstance(f, ast.Call) and isinstance(f.func, (ast.Name, ast.Attribute)) and ast.unparse(f.func).split(".")[-1] in ("vmap", "jit") and f.args:
            f = f.args[0]
        if isinstance(f, ast.Name):
            r = repo.resolve_name(repo.mods[fi.file], f.id)
            if isinstance(r, FuncInfo):
                return r, False
            if r is not None and hasattr(r, "methods"):
                for b in repo.mro(r.name):
                    if "__init__" in b.methods:
                        return b.methods["__init__"], True
            top = fi
            while top.parent is not None:
                top = top.parent
            for n_ in ast.walk(top.node):
                if isinstance(n_, ast.FunctionDef) and n_.name == f.id and n_ is not fi.node:
                    return FuncInfo(n_.name, top.qual + ".<locals>." + n_.name, fi.file, n_, cls=None, parent=top), False
        if isinstance(f, ast.Attribute):
            recv = ast.unparse(f.value)
            if recv in ("self", "self.base", "module", "super()", "view", "net", "cell", "pointer", "self.base.base"):
                c2 = byname.get(f.attr, [])
                if c2 and all(x.cls for x in c2):
                    # same parameter list in every class that defines it, else ambiguous
                    sigs = {tuple(x.params) for x in c2}
                    if len(sigs) == 1:
                        return c2[0], True
        return None, False

    n = 0
    for fi in repo.all_functions():
        if (fi.file, fi.qual) not in sc or fi.file in SKIP_FILES:
            continue
        for c in ast.walk(fi.node):
            if not isinstance(c, ast.Call) or any(isinstance(a, ast.Starred) for a in c.args):
                continue
            g, is_method = callee_of(c, fi)
            is_partial = False
            if g is None and isinstance(c.func, (ast.Name, ast.Attribute)) and ast.unparse(c.func).split(".")[-1] == "partial" and c.args:
                # partial(f, a, k=v): the same bindings as the call f(a, k=v), made now and completed later
                c0 = ast.Call(func=c.args[0], args=list(c.args[1:]), keywords=list(c.keywords))
                ast.copy_location(c0, c)
                g, is_method = callee_of(c0, fi)
                if g is not None:
                    c, is_partial = c0, True
            if g is None:
                continue
            a = g.node.args
            names = [x.arg for x in a.posonlyargs + a.args]
            if names and names[0] in ("self", "cls") and (is_method or g.cls):
                # a staticmethod has no self
                if not any(isinstance(d, ast.Name) and d.id == "staticmethod" for d in g.node.decorator_list):
                    names = names[1:]
            allp = names + [x.arg for x in a.kwonlyargs]
            bound = {}  # parameter -> name of the variable passed
            for i, arg in enumerate(c.args):
                if i < len(names) and isinstance(arg, ast.Name):
                    bound[names[i]] = arg.id
            for k in c.keywords:
                if k.arg and isinstance(k.value, ast.Name):
                    bound[k.arg] = k.value.id
            if len(bound) < (1 if is_partial else 2):
                continue
            n += 1
            crossed = [(p_, v_) for p_, v_ in bound.items() if v_ != p_ and v_ in allp and bound.get(v_) != v_]
            why = next((ARG_NAME_OK.get((fi.qual, g.qual, v_)) for _p, v_ in crossed if ARG_NAME_OK.get((fi.qual, g.qual, v_))), None)
            if crossed and not why:
                p_, v_ = crossed[0]
                col.bad(R, fi, f"{fi.qual} -> {g.qual}: arguments are passed under their own names",
                        f"`{ast.unparse(c)[:80]}` passes `{v_}` as parameter `{p_}` of {g.qual}({', '.join(allp)}), which has a parameter "
                        f"named `{v_}` of its own: the arguments are swapped (or one of the two names is wrong)", node=c)
            else:
                col.ok(R, fi, f"{fi.qual} -> {g.qual}: arguments are passed under their own names", why or "no crossing", node=c)
    col.rule(R, "a variable named like a parameter of the callee is passed as that parameter", 0)
    col.info["calls_with_named_arguments_checked"] = n


ROLE_PAIRS = [("pre", "post"), ("sink", "source"), ("parent", "child"), ("par", "child"), ("upper", "lower")]
ROLE_CROSS_OK = {
    ("compute_children_and_parents", "child_belongs_to_branchpoint"):
        "the branch point of a child IS the rank of its parent: computed from the parent indices by design",
}


def role_tokens(repo, col, prop):
    """Names state roles.  Something named for one side of a pair (pre/post, sink/source, parent/child, upper/lower) that is
    computed ONLY from things named for the other side is a crossed role: `pre_rows = post_cell_view...`,
    `new_rows["pre_locs"] = post_loc`, `f(pre_inds=post_inds)`.  On the pinned tree this happens once (reviewed, listed)."""
    import re
    R = f"R-{prop}-rolenames"
    sc, ents, _ = scope(repo, prop)

    def toks_of(node):
        out = set()
        for x in ast.walk(node):
            if isinstance(x, ast.Name):
                out |= set(re.split(r"[_\W]+", x.id.lower()))
            elif isinstance(x, ast.Attribute):
                out |= set(re.split(r"[_\W]+", x.attr.lower()))
            elif isinstance(x, ast.Constant) and isinstance(x.value, str) and " " not in x.value and len(x.value) < 40:
                out |= set(re.split(r"[_\W]+", x.value.lower()))
            elif isinstance(x, ast.arg):
                out |= set(re.split(r"[_\W]+", x.arg.lower()))
        return out

    IDENTITY_WRAPPERS = {"asarray", "array", "list", "tuple", "int", "float", "copy", "deepcopy", "to_numpy", "tolist", "to_list", "astype",
                         "sorted", "unique"}

    def spine_toks(node):
        """tokens of what the value IS: the names along its access spine (`a.b[c].d()` -> a, b, d), looking through conversions
        (`np.asarray(x)` -> x).  Names that only take part in computing it (`np.where(has_parent)`: the rows that HAVE a parent are
        the children) say nothing about its role."""
        out = set()
        n = node
        while True:
            if isinstance(n, ast.Attribute):
                if n.attr == "base":
                    break   # `<view>.base` is the whole module, whichever view it is reached from: it has no role
                out |= set(re.split(r"[_\W]+", n.attr.lower()))
                n = n.value
            elif isinstance(n, ast.Subscript):
                if isinstance(n.slice, ast.Constant) and isinstance(n.slice.value, str):
                    out |= set(re.split(r"[_\W]+", n.slice.value.lower()))
                elif isinstance(n.slice, (ast.Name, ast.Attribute)):
                    out |= spine_toks(n.slice)   # rows selected by an index: the role of `table[rows]` is that of the rows as well
                n = n.value
            elif isinstance(n, ast.Call):
                f = n.func
                fname = f.attr if isinstance(f, ast.Attribute) else (f.id if isinstance(f, ast.Name) else None)
                if fname in IDENTITY_WRAPPERS and n.args and not (isinstance(f, ast.Attribute) and not isinstance(f.value, ast.Name)):
                    n = n.args[0]
                elif fname in IDENTITY_WRAPPERS and isinstance(f, ast.Attribute):
                    n = f.value
                elif isinstance(f, ast.Attribute):
                    out |= set(re.split(r"[_\W]+", f.attr.lower()))
                    n = f.value
                else:
                    if isinstance(f, ast.Name):
                        out |= set(re.split(r"[_\W]+", f.id.lower()))
                    break
            elif isinstance(n, ast.Name):
                out |= set(re.split(r"[_\W]+", n.id.lower()))
                break
            elif isinstance(n, ast.Constant) and isinstance(n.value, str) and " " not in n.value and len(n.value) < 40:
                out |= set(re.split(r"[_\W]+", n.value.lower()))
                break
            else:
                break
        return out

    def crossed(t_toks, v_toks):
        for a, b in ROLE_PAIRS:
            for p_, q_ in ((a, b), (b, a)):
                if p_ in t_toks and q_ not in t_toks and q_ in v_toks and p_ not in v_toks:
                    return p_, q_
        return None

    n = 0
    for fi in repo.all_functions():
        if (fi.file, fi.qual) not in sc or fi.file in SKIP_FILES:
            continue
        for node in walk_no_nested(fi.node):
            pairs = []
            if isinstance(node, (ast.Assign, ast.AnnAssign, ast.AugAssign)) and getattr(node, "value", None) is not None:
                tg = node.targets if isinstance(node, ast.Assign) else [node.target]
                tt = set()
                for t_ in tg:
                    tt |= toks_of(t_)
                pairs.append((tt, spine_toks(node.value), node, ast.unparse(tg[0])[:40]))
            elif isinstance(node, ast.Call):
                for k in node.keywords:
                    if k.arg:
                        pairs.append((set(re.split(r"[_\W]+", k.arg.lower())), spine_toks(k.value), node, k.arg))
            elif isinstance(node, ast.Dict):
                for k, v in zip(node.keys, node.values):
                    if isinstance(k, ast.Constant) and isinstance(k.value, str) and not (isinstance(v, ast.Constant) and isinstance(v.value, str)):  # a NAME-to-NAME table (rename(columns=...)) states a swap on purpose
                        pairs.append((set(re.split(r"[_\W]+", k.value.lower())), spine_toks(v), node, repr(k.value)))
            for tt, vt, nd, what in pairs:
                if not any(a in tt or b in tt for a, b in ROLE_PAIRS):
                    continue
                if tt & {"major", "minor", "order", "ordered", "sorted", "by", "first", "per"}:
                    continue   # `sampled_pre_major`, `sorted_by_post`: the name describes an ORDERING by that role, not a quantity of that role
                n += 1
                c_ = crossed(tt, vt)
                why = ROLE_CROSS_OK.get((fi.name, what)) if c_ else None
                if c_ and not why:
                    col.bad(R, fi, f"{fi.qual}: `{what}` is computed from quantities of its own role",
                            f"`{ast.unparse(nd)[:90]}`: `{what}` is named for `{c_[0]}` but is computed only from `{c_[1]}` quantities: the two "
                            f"roles are crossed", node=nd)
                else:
                    col.ok(R, fi, f"{fi.qual}: `{what}` is computed from quantities of its own role", why or "", node=nd)
    col.rule(R, "quantities named for one role (pre/post, sink/source, parent/child, upper/lower) are not computed from the other", 0)
    col.info["role_named_bindings_checked"] = n


def _selector_chain(t):
    """A[S1][S2]... -> (keys of the non-constant selectors S1, S2, ...); column names / constant positions select a FIELD, not rows"""
    ch = []
    while t.op in ("sub", "mcall", "call") and t.args:
        if t.op == "sub":
            s_ = t.args[1]
            if not (s_.op == "const" or s_.op == "slice"):
                ch.append(s_.key())
            t = t.args[0]
        elif t.op == "mcall" and t.name in ("to_list", "to_numpy", "tolist", "copy", "astype", "flatten", "ravel"):
            t = t.args[0]
        elif t.name in ("asarray", "array", "list", "tuple") and len(t.args) >= 1:
            t = t.args[-1] if t.op == "call" else (t.args[1] if len(t.args) > 1 else t.args[0])
        else:
            break
    return tuple(reversed(ch))


def _own_no_defs(n):
    todo = list(ast.iter_child_nodes(n))
    while todo:
        x = todo.pop()
        if isinstance(x, (ast.FunctionDef, ast.AsyncFunctionDef, ast.ClassDef, ast.Lambda)):
            continue
        yield x
        todo.extend(ast.iter_child_nodes(x))


def empty_guards(repo, col, prop):
    """`if len(X) > 0: <use of the selection>`: the selection that is tested for emptiness is the one the guarded statements
    work on.  X = A[S...] is identified by its chain of row selectors (masks / index arrays): the same chain must occur in the
    guarded statements; a plain X must occur itself.  A guard that tests ANOTHER selection skips (or runs) the block for the
    wrong inputs -- e.g. drops the branch-point terms of the diagonal whenever there are no within-branch edges."""
    from . import idx
    R = f"R-{prop}-guards"
    sc, ents, _ = scope(repo, prop)
    n = 0
    for fi in repo.all_functions():
        if (fi.file, fi.qual) not in sc or fi.file in SKIP_FILES:
            continue
        ifs = [x for x in walk_no_nested(fi.node) if isinstance(x, ast.If)]
        ifs = [x for x in ifs if isinstance(x.test, ast.Compare) and len(x.test.ops) == 1 and isinstance(x.test.ops[0], (ast.Gt, ast.NotEq, ast.GtE))
               and isinstance(x.test.left, ast.Call) and isinstance(x.test.left.func, ast.Name) and x.test.left.func.id == "len"
               and isinstance(x.test.comparators[0], ast.Constant) and x.test.comparators[0].value in (0, 1) and len(x.test.left.args) == 1]
        if not ifs:
            continue
        ex = idx.expander(repo, fi)
        for st in ifs:
            X = ex.term(st.test.left.args[0])
            chain = _selector_chain(X)
            # terms of the guarded statements: scatters / gathers
            body_terms = []
            for b in st.body:
                if isinstance(b, (ast.FunctionDef, ast.AsyncFunctionDef, ast.ClassDef)):
                    continue          # a local helper defined in the block: its body is seen where it is called (calls are inlined in the terms)
                for y in [b] + list(_own_no_defs(b)):
                    if isinstance(y, ast.Subscript) and isinstance(y.ctx, ast.Load):
                        body_terms.append(ex.term(y))
                    elif isinstance(y, ast.Call) and isinstance(y.func, ast.Attribute) and y.func.attr in ("add", "set"):
                        body_terms += [ex.term(a_) for a_ in y.args]
                    elif isinstance(y, ast.Call) and isinstance(y.func, ast.Name) and y.func.id in ex.nested:
                        body_terms.append(ex.term(y))      # the inlined value of a local helper
            if not body_terms:
                continue
            n += 1
            if chain:
                chains = set()
                for bt in body_terms:
                    for z in bt.walk():
                        if z.op == "sub":
                            c_ = _selector_chain(z)
                            if c_:
                                chains.add(c_)
                if not chains:
                    col.ok(R, fi, f"{fi.qual}: `{ast.unparse(st.test)}` guards the selection it tests", "no row selection in the guarded block", node=st)
                    continue
                ok = any(c_[:len(chain)] == chain or chain[:len(c_)] == c_ for c_ in chains)
            else:
                xk = X.key()
                ok = any(T_find_key(bt, xk) for bt in body_terms)
                if not ok and X.op in ("param", "free", "attr"):
                    ok = None  # a whole array whose relation to the block is not visible
            if ok is None:
                col.ok(R, fi, f"{fi.qual}: `{ast.unparse(st.test)}` guards the selection it tests", "whole-array guard", node=st)
            else:
                col.check(ok, R, fi, f"{fi.qual}: `{ast.unparse(st.test)}` guards the selection it tests",
                          "the rows tested for emptiness are the rows the guarded statements work on",
                          f"`{ast.unparse(st.test)[:70]}` tests the selection `{X.short(70)}`, but the guarded statements work on other selections: "
                          f"the block is skipped (or run) for the wrong inputs", node=st)
    col.rule(R, "emptiness guards test the selection that the guarded block uses", 0)


def membership_guards(repo, col, prop):
    """`if key in D: D[key] = f(D[key]) else: D[key] = new`: the container that is tested is the container that is read / written
    under the test.  A view holds restricted COPIES of the module's containers under the same attribute names (`self.externals`
    vs `self.base.externals`, `self.groups` vs `self.base.groups`, ...): testing one and updating the other appends to (or
    overwrites) the wrong entries whenever the view does not contain the key."""
    R = f"R-{prop}-membership"
    sc, ents, _ = scope(repo, prop)

    def chain(n):
        """attribute chain of a container expression, `.keys()` stripped"""
        if isinstance(n, ast.Call) and isinstance(n.func, ast.Attribute) and n.func.attr == "keys" and not n.args:
            n = n.func.value
        parts = []
        while isinstance(n, ast.Attribute):
            parts.append(n.attr)
            n = n.value
        if isinstance(n, ast.Name):
            parts.append(n.id)
            return tuple(reversed(parts))
        return None

    def test_of(t):
        if isinstance(t, ast.Compare) and len(t.ops) == 1 and isinstance(t.ops[0], (ast.In, ast.NotIn)):
            D = chain(t.comparators[0])
            if D is not None and len(D) >= 2:
                return ast.unparse(t.left), D, t
        return None

    n_inst = 0
    for fi in repo.all_functions():
        if (fi.file, fi.qual) not in sc or fi.file in SKIP_FILES:
            continue
        verdict = {}   # id(test node) -> [test, D, ksrc, same, other]

        def visit(n, stack):
            if isinstance(n, (ast.FunctionDef, ast.AsyncFunctionDef, ast.Lambda, ast.ClassDef)) and n is not fi.node:
                return
            if isinstance(n, (ast.If, ast.IfExp)):
                tt = test_of(n.test)
                visit(n.test, stack)
                inner = stack + [tt] if tt else stack
                for c in (n.body + n.orelse) if isinstance(n, ast.If) else [n.body, n.orelse]:
                    visit(c, inner)
                return
            if isinstance(n, ast.Subscript):
                c_ = chain(n.value)
                ks = ast.unparse(n.slice)
                if c_ is not None and len(c_) >= 2:
                    # the NEAREST enclosing test of this key against a container of the same name decides
                    for ent in reversed(stack):
                        if ent[0] == ks and ent[1][-1] == c_[-1]:
                            v = verdict.setdefault(id(ent[2]), [ent[2], ent[1], ks, [], []])
                            (v[3] if c_ == ent[1] else v[4]).append(c_)
                            break
            for c in ast.iter_child_nodes(n):
                visit(c, stack)

        for st in fi.node.body:
            visit(st, [])
        # every membership test of the function (also those kept in a local flag: `in_view = key in self.groups`)
        tested = set()
        for x in ast.walk(fi.node):
            tt = test_of(x) if isinstance(x, ast.Compare) else None
            if tt:
                tested.add((tt[0], tt[1]))
        for tnode, D, ksrc, same, other in verdict.values():
            n_inst += 1
            # a use of the OTHER container is fine when that container is tested for the key somewhere in the function as well
            other = [c_ for c_ in other if (ksrc, c_) not in tested]
            col.check(not other, R, fi, f"{fi.qual}: `{ast.unparse(tnode)[:60]}` tests the container it updates",
                      f"{'.'.join(D)}[{ksrc}]",
                      f"the test looks `{ksrc}` up in `{'.'.join(D)}` but the guarded statements use `{'.'.join(other[0]) if other else ''}[{ksrc}]`: "
                      f"one is the view's restricted copy, the other the module's own container; a key that exists in only one of them is "
                      f"overwritten instead of extended (or the reverse)", node=tnode)
    col.rule(R, "membership tests look the key up in the container that is then read / written", 0)


def _lost_updates(fn):
    """assignments `x = f(..., x, ...)` (also `x op= ...`) to a local name that is not read afterwards"""
    loads = {}
    for x in ast.walk(fn):
        if isinstance(x, ast.Name) and isinstance(x.ctx, ast.Load):
            loads.setdefault(x.id, []).append((x.lineno, x.col_offset))
    loops = [(l.lineno, l.end_lineno) for l in ast.walk(fn) if isinstance(l, (ast.For, ast.While))]
    nonlocal_ = {n_ for x in ast.walk(fn) if isinstance(x, (ast.Global, ast.Nonlocal)) for n_ in x.names}
    out = []
    for st in walk_no_nested(fn):
        if isinstance(st, ast.Assign) and len(st.targets) == 1 and isinstance(st.targets[0], ast.Name):
            nm, val = st.targets[0].id, st.value
        elif isinstance(st, ast.AugAssign) and isinstance(st.target, ast.Name):
            nm, val = st.target.id, None
        else:
            continue
        if nm in nonlocal_ or nm.startswith("_"):
            continue
        if val is not None and not any(isinstance(y, ast.Name) and y.id == nm for y in ast.walk(val)):
            continue   # a first binding / plain overwrite, not an update of the variable
        if any(a <= st.lineno <= b for a, b in loops):
            continue   # carried to the next iteration
        if isinstance(st, ast.AugAssign) and isinstance(st.value, ast.Constant):
            continue   # counters
        end = (st.end_lineno, st.end_col_offset)
        if not any(pos > end for pos in loads.get(nm, ())):
            out.append((st, nm))
    return out


def lost_updates(repo, col, prop):
    """`x = np.clip(x, ...)` / `x = x.sort_values(...)` whose result nobody reads: the out-of-place operation was meant to change what
    is returned / stored, but the returned object is another one (an alias taken earlier, the original).  The update is lost --
    e.g. `min_radius` silently has no effect."""
    R = f"R-{prop}-lostupdate"
    probe = ast.parse("def f(r, m):\n    each = r.ravel()\n    r = np.clip(r, m, None)\n    return each").body[0]
    if len(_lost_updates(probe)) != 1:
        raise AnalysisError("lost-update detector does not recognise its reference example")
    sc, ents, _ = scope(repo, prop)
    n = 0
    for fi in repo.all_functions():
        if (fi.file, fi.qual) not in sc or fi.file in SKIP_FILES:
            continue
        n += 1
        for st, nm in _lost_updates(fi.node):
            col.bad(R, fi, f"{fi.qual}: the updated `{nm}` is used", f"`{ast.unparse(st)[:80]}` computes a new `{nm}` from the old one, but `{nm}` "
                    f"is not read afterwards: what the function returns / stores was taken from the OLD value, the update has no effect", node=st)
    col.ok(R, "jaxley", f"{n} functions: every update of a local variable in terms of itself is read afterwards", "")
    col.rule(R, "no lost updates of local variables", 1)


def _loop_leaks(fn):
    """(name, read, first loop, second loop): `name` is bound only inside the body of loop L1 and is read inside a LATER loop L2 of
    the same function before L2 binds it -- L2 then works with whatever the last iteration of L1 left behind."""
    out = []
    body = fn.body

    def assigned(node):
        return {x.id for x in ast.walk(node) if isinstance(x, ast.Name) and isinstance(x.ctx, ast.Store)}
    loops = [(i, st) for i, st in enumerate(body) if isinstance(st, (ast.For, ast.While))]
    params = {x.arg for x in ast.walk(fn.args) if isinstance(x, ast.arg)}
    for a, (i1, l1) in enumerate(loops):
        for (i2, l2) in loops[a + 1:]:
            outside = set()
            for st in body[:i1] + body[i1 + 1:i2]:
                if not isinstance(st, (ast.For, ast.While)):
                    outside |= assigned(st)
            inner1 = set()
            for st in l1.body:
                inner1 |= assigned(st)
            tgt2 = assigned(l2.target) if isinstance(l2, ast.For) else set()
            for nm in sorted(inner1 - outside - params - tgt2):
                stores = [(x.lineno, x.col_offset) for st in l2.body for x in ast.walk(st)
                          if isinstance(x, ast.Name) and x.id == nm and isinstance(x.ctx, ast.Store)]
                loads = [(x.lineno, x.col_offset, x) for st in l2.body for x in ast.walk(st)
                         if isinstance(x, ast.Name) and x.id == nm and isinstance(x.ctx, ast.Load)]
                if loads and (not stores or min(loads)[:2] < min(stores)):
                    out.append((nm, min(loads)[2], l1, l2))
    return out


def loop_leaks(repo, col, prop):
    """A per-iteration temporary of one loop that a later loop reads without setting it (the line that set it was lost in a
    copy / clean-up): the later loop silently uses the value of the LAST iteration of the earlier loop -- e.g. the compartment
    offset of the last cell for every cell."""
    R = f"R-{prop}-loopleak"
    probe = ast.parse("def f(cells):\n    for c in cells:\n        off = c.n\n        a(off)\n    for c in cells:\n        b(off)").body[0]
    if len(_loop_leaks(probe)) != 1:
        raise AnalysisError("loop-leak detector does not recognise its reference example")
    sc, ents, _ = scope(repo, prop)
    n = 0
    for fi in repo.all_functions():
        if (fi.file, fi.qual) not in sc or fi.file in SKIP_FILES:
            continue
        n += 1
        for nm, rd, l1, l2 in _loop_leaks(fi.node):
            col.bad(R, fi, f"{fi.qual}: `{nm}` is set in the loop that reads it",
                    f"the loop at line {l2.lineno} reads `{nm}` (line {rd.lineno}) but never sets it before; `{nm}` is a per-iteration value of the "
                    f"loop at line {l1.lineno}, so every iteration here sees the value of that loop's LAST iteration", node=rd)
    col.ok(R, "jaxley", f"{n} functions: no loop reads a per-iteration temporary of an earlier loop", "")
    col.rule(R, "no loop works with the leftovers of an earlier loop", 1)


def T_find_key(t, key):
    for z in t.walk():
        if z.key() == key:
            return True
    return False


def must_stores(repo, col, prop):
    """Stores that re-establish an invariant are unconditional (table MUST_STORE in rules/mustcall_table.py)."""
    from .mustcall_table import MUST_STORE
    from . import idx
    R = f"R-{prop}-muststore"
    rows = [r for r in MUST_STORE if prop in r[0]]
    if not rows:
        return
    n = 0
    for _props, qual, kind, name, why in rows:
        cls, _, meth = qual.partition(".")
        fi = repo.method(cls, meth)
        ex = idx.expander(repo, fi)
        if kind == "attr":
            sts = [s_ for s_ in ex.stores if s_.kind == "attr" and s_.key.name == name]
        else:
            sts = [s_ for s_ in ex.stores if s_.kind == "sub" and s_.key.op == "const" and s_.key.name == name]
        n += 1
        if not sts:
            col.bad(R, fi, f"{qual} (re)sets `{name}`", f"`{name}` is no longer set by {qual}: {why}", node=fi.node)
            continue
        uncond = [s_ for s_ in sts if not [g for g in s_.guards if g.op != "loop"]]
        g0 = next((g for s_ in sts for g in s_.guards if g.op != "loop"), None)
        col.check(bool(uncond), R, fi, f"{qual} (re)sets `{name}` on every path", why,
                  f"`{name}` is set only if `{g0.short(70) if g0 is not None else ''}`: {qual} runs again on objects that already carry an "
                  f"old value (set_ncomp, view creation), which then survives -- {why}", node=sts[0].node)
    col.rule(R, "invariant-restoring stores are unconditional", max(1, n))


def run_all(prop, repo, col, tier):
    mod = importlib.import_module(f"rules.{prop.lower()}")
    pending = None
    try:
        mod.check(repo, col, tier)
    except AnalysisError as e:
        pending = e  # the property's own analysis lost an anchor: still run the cross-cutting rules, then report it
    dead_parameters(repo, col, prop)
    early_exits(repo, col, prop)
    must_calls(repo, col, prop)
    not_forwarded(repo, col, prop)
    must_stores(repo, col, prop)
    arg_names(repo, col, prop)
    role_tokens(repo, col, prop)
    empty_guards(repo, col, prop)
    membership_guards(repo, col, prop)
    lost_updates(repo, col, prop)
    loop_leaks(repo, col, prop)
    if pending is not None:
        raise pending
