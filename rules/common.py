"""Cross-cutting rules applied to every property on the files it is anchored in."""
from __future__ import annotations

import ast
import importlib
import json
import os

from sa.core import VERIF, AnalysisError

# (function, parameter) pairs that are unused on the pinned tree, confirmed by reading: interface uniformity
# (all back ends / all elimination steps share one signature) or documented "not yet implemented".
UNUSED_OK = {
    ("step_voltage_explicit", "internal_node_inds"): "uniform back-end signature (solver_kwargs is passed to every stepper)",
    ("step_voltage_explicit", "ncomp_per_branch"): "uniform back-end signature",
    ("_voltage_vectorfield", "par_inds"): "uniform back-end signature; forward Euler refuses branched cells",
    ("_voltage_vectorfield", "child_inds"): "uniform back-end signature; forward Euler refuses branched cells",
    ("_voltage_vectorfield", "solver"): "uniform back-end signature",
    ("_voltage_vectorfield", "delta_t"): "the caller multiplies the vector field by delta_t",
    ("_voltage_vectorfield", "idx"): "uniform back-end signature",
    ("_voltage_vectorfield", "debug_states"): "debug hook",
    ("_triang_branched", "debug_states"): "debug hook",
    ("_backsub_branched", "uppers"): "already eliminated by the triangulation",
    ("_backsub_branched", "branchpoint_conds_parents"): "already eliminated by the triangulation",
    ("_backsub_branched", "branchpoint_weights_children"): "already eliminated by the triangulation",
    ("_backsub_branched", "debug_states"): "debug hook",
    ("_eliminate_parents_upper", "ncomp_per_branch"): "the indexer knows the per-branch counts",
    ("_eliminate_parents_lower", "ncomp_per_branch"): "the indexer knows the per-branch counts",
    ("Module.copy", "reset_index"): "documented as not implemented",
    ("Module.get_all_parameters", "voltage_solver"): "both back ends use the same conductance format",
    ("Module._channel_currents", "delta_t"): "signature shared with the state update",
    ("Module._step_synapse", "syn_channels"): "no-op for modules without synapses",
    ("Module._step_synapse", "params"): "no-op for modules without synapses",
    ("Module._step_synapse", "delta_t"): "no-op for modules without synapses",
    ("Module._step_synapse", "edges"): "no-op for modules without synapses",
    ("Network._synapse_currents", "delta_t"): "signature shared with the state update",
    ("Module._synapse_currents", "syn_channels"): "no-op for modules without synapses",
    ("Module._synapse_currents", "params"): "no-op for modules without synapses",
    ("Module._synapse_currents", "delta_t"): "no-op for modules without synapses",
    ("Module._synapse_currents", "edges"): "no-op for modules without synapses",
}
SKIP_FILES = ("jaxley/utils/plot_utils.py", "jaxley/utils/debug_solver.py", "jaxley/utils/colors.py")
INTERFACE_METHODS = {"update_states", "compute_current", "init_state", "forward", "inverse", "__init__", "__call__",
                     "__getattr__", "__exit__", "__enter__", "wrapper", "__getitem__", "vis"}

_anchors = None


def anchors(prop):
    global _anchors
    if _anchors is None:
        _anchors = {}
        for line in open(os.path.join(VERIF, "properties.jsonl"), encoding="utf-8"):
            p = json.loads(line)
            _anchors[p["id"]] = p["anchors"]["files"]
    return _anchors.get(prop, [])


def dead_parameters(repo, col, prop):
    """A parameter that a function accepts but never reads cannot influence the result: every
    property quantified over that input fails for it (e.g. `min_radius`, `delta_t`, `solver`)."""
    R = f"R-{prop}-params"
    files = [f for f in anchors(prop) if f not in SKIP_FILES]
    n = 0
    for fi in repo.all_functions():
        if fi.file not in files or fi.name in INTERFACE_METHODS:
            continue
        a = fi.node.args
        ps = [x.arg for x in a.posonlyargs + a.args + a.kwonlyargs if x.arg not in ("self", "cls")]
        if not ps:
            continue
        body = [s for s in fi.node.body if not (isinstance(s, ast.Expr) and isinstance(s.value, ast.Constant))]
        if len(body) == 1 and isinstance(body[0], (ast.Raise, ast.Pass)):
            continue  # abstract / not implemented
        if len(body) == 1 and isinstance(body[0], ast.Return) and isinstance(body[0].value, (ast.Dict, ast.Tuple, ast.Constant)) \
                and not any(isinstance(x, ast.Name) for x in ast.walk(body[0].value)):
            continue  # trivial default implementation (`return {}`)
        used = {x.id for x in ast.walk(fi.node) if isinstance(x, ast.Name) and isinstance(x.ctx, ast.Load)}
        for p in ps:
            n += 1
            if p in used:
                continue
            why = UNUSED_OK.get((fi.qual, p))
            col.add(R, fi, f"parameter `{p}` of {fi.qual} takes effect", "DISCHARGED" if why else "VIOLATED",
                    f"unused by design: {why}" if why else
                    f"`{fi.qual}` accepts `{p}` but never reads it: the result cannot depend on it, although callers pass it "
                    f"and the documentation promises an effect", node=fi.node)
    col.rule(R, "every parameter of the anchored functions is read (listed exceptions with reasons)", 0)
    col.info["parameters_examined"] = n


def _own(n):
    todo = list(ast.iter_child_nodes(n))
    while todo:
        x = todo.pop()
        yield x
        if isinstance(x, (ast.FunctionDef, ast.Lambda, ast.For, ast.While)):
            continue
        todo.extend(ast.iter_child_nodes(x))


def _has_effect(st) -> bool:
    for n in ast.walk(st):
        if isinstance(n, ast.Assign) and any(isinstance(t, (ast.Subscript, ast.Attribute)) for t in n.targets):
            return True
        if isinstance(n, ast.Assign) and isinstance(n.value, ast.Call) and isinstance(n.value.func, ast.Attribute) \
                and n.value.func.attr in ("set", "add"):
            return True
        if isinstance(n, ast.AugAssign):
            return True
        if isinstance(n, ast.Call) and isinstance(n.func, ast.Attribute) and n.func.attr in ("append", "extend", "update", "pop", "remove"):
            return True
    return False


EARLY_EXIT_OK = {("_split_long_branches", "while"): "gives up splitting after 10 sub-branches with a warning (documented)"}


def early_exits(repo, col, prop):
    """A `for` loop over a registry (channels, synapse types, parameters, cells, keys, ...) whose body has effects
    must run to completion: a `break`/`return` placed before those effects silently skips every later element."""
    R = f"R-{prop}-loops"
    files = [f for f in anchors(prop) if f not in SKIP_FILES]
    n = 0
    for fi in repo.all_functions():
        if fi.file not in files:
            continue
        for lp in ast.walk(fi.node):
            if not isinstance(lp, ast.For):
                continue
            n += 1
            body = lp.body
            exits = []
            for i, st in enumerate(body):
                if isinstance(st, (ast.For, ast.While)):
                    continue  # an inner loop's break leaves the inner loop only
                for x in ([st] if isinstance(st, (ast.Break, ast.Return)) else list(_own(st))):
                    if isinstance(x, (ast.Break, ast.Return)):
                        exits.append((i, x))
            for i, x in exits:
                later_effect = any(_has_effect(s2) for s2 in body[i + 1:])
                if not later_effect:
                    continue
                from sa.core import unparse
                col.bad(R, fi, f"`{type(x).__name__.lower()}` in `{unparse(lp).splitlines()[0][:60]}` before the loop body's effects",
                        f"the loop `{unparse(lp).splitlines()[0][:70]}` leaves with `{type(x).__name__.lower()}` before the statements "
                        f"that store results: once the condition holds for one element, all remaining elements are skipped "
                        f"(e.g. every channel inserted after a stateless one keeps its default states)", node=x)
            if not exits:
                pass
    col.rule(R, "loops with effects run to completion (no break/return before the effects)", 0)
    col.info["loops_examined"] = n


def run_all(prop, repo, col, tier):
    mod = importlib.import_module(f"rules.{prop.lower()}")
    mod.check(repo, col, tier)
    dead_parameters(repo, col, prop)
    early_exits(repo, col, prop)
