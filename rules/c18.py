"""C18 -- modules survive pickling and deep copies (picklable / independent by construction)."""
from __future__ import annotations

import ast
import re

from sa.core import AnalysisError, unparse, walk_no_nested, FuncInfo
from sa.effects import MODULE_ROOTS
from sa.terms import Expander, T
from . import idx

LEVEL = "other"
EXPLANATION = (
    "Behavioural round-trip equality is NOT decidable statically. Claimed: picklability and independence "
    "by construction. R-C18-closure (closure escape): no lambda or nested function is stored on a module "
    "(attribute, element of a stored container, appended to a registry), and every functools.partial "
    "that is stored wraps a module-level function (the radius-generating functions). R-C18-getattr: "
    "Module.__getattr__ resolves dunder names through object.__getattribute__ before touching self.base "
    "(otherwise unpickling and deepcopy recurse). R-C18-share: no mutable default argument is stored on "
    "an instance; no class-level or module-level container is mutated by instance methods (copies would "
    "share it); Network deep-copies the cells' coordinates and drops its reference to the cell list."
)
ASSUMPTIONS = ["channels and synapse objects are shared by reference by design", "equality of tables/results after a round trip is not decided"]


def check(repo, col, tier):
    col.rule("R-C18-closure", "no closure is stored on a module; stored partials wrap module-level functions", 15)
    col.rule("R-C18-getattr", "__getattr__ handles dunder names before touching self.base", 2)
    col.rule("R-C18-share", "no shared mutable state between instances", 6)
    col.rule("R-C18-protocol", "a custom copy/pickle protocol method copies the whole state and shares nothing", 2)
    _protocol(repo, col)
    _registry(repo, col)
    col.rule("R-C18-plain", "objects that live on a module hold plain data and are instances of importable classes", 20)
    _plain(repo, col)
    _closures(repo, col)
    _getattr(repo, col)
    _share(repo, col)
    col.rule("R-C18-memo", "no result is memoised per object identity (lru_cache / cached_property / jit with a static module argument)", 20)
    _memo(repo, col)
    col.rule("R-C18-tracer", "what integrate stores on the module is computed outside of tracing (no leaked tracer)", 2)
    _tracer(repo, col)
    _state_arguments(repo, col)
    _inplace_registry(repo, col)
    _sentinels(repo, col)


def _self(t: T) -> bool:
    return t.op == "param" and t.name == "self"


def _has_closure(t: T):
    for x in t.walk():
        if x.op in ("lambda", "localfn"):
            return x
    return None


def _is_call_position(t: T, c: T) -> bool:
    """closure c only appears as the function being called / argument of a higher-order library call."""
    for x in t.walk():
        if x.op == "callv" and x.args and x.args[0] is c:
            return True
        if x.op in ("mcall", "call") and any(a is c for a in x.args):
            return True
    return False


def _closures(repo, col):
    R = "R-C18-closure"
    n_cl = 0
    for fi in repo.all_functions():
        ex = idx.expander(repo, fi)
        # every lambda / nested def of this function
        closures = [n for n in walk_no_nested(fi.node) if isinstance(n, (ast.Lambda, ast.FunctionDef))]
        if not closures:
            continue
        for cnode in closures:
            n_cl += 1
            name = cnode.name if isinstance(cnode, ast.FunctionDef) else "<lambda>"
            stored = None
            for s in ex.stores:
                if s.kind in ("attr", "sub", "mcall", "aug"):
                    v = s.value
                    hit = None
                    for x in v.walk():
                        if (x.op == "lambda" and x.node is cnode) or (x.op == "localfn" and x.name == name and isinstance(cnode, ast.FunctionDef)):
                            hit = x
                    if hit is None:
                        continue
                    if _is_call_position(v, hit):
                        continue  # applied, or handed to apply/tree_map/vmap: consumed, not stored
                    # stored on what?
                    root = s.base
                    while root.op in ("attr", "sub"):
                        root = root.args[0]
                    on_module = root.op == "param" and root.name in MODULE_ROOTS
                    if s.kind == "attr" and s.base.op == "param" and s.base.name == "self" and s.key.name == "__dict__":
                        on_module = False
                    if on_module:
                        stored = s
            col.check(stored is None, R, fi, f"{name} defined in {fi.qual} is not stored on a module",
                      "called locally / passed to a higher-order function / returned to the caller",
                      f"`{unparse(stored.node)[:80] if stored else ''}` stores a {'lambda' if name == '<lambda>' else 'nested function'} "
                      f"on the module: pickle.dumps(module) raises (local objects cannot be pickled)", node=cnode)
    if n_cl < 15:
        raise AnalysisError(f"only {n_cl} closures found in the package")
    # radius generating functions: partial of module-level functions, and what read_swc stores
    cu = repo.mod("jaxley/utils/cell_utils.py")
    for name in ("_radius_generating_fn", "_padded_radius_generating_fn"):
        fi = repo.func("jaxley/utils/cell_utils.py", name)
        ex = idx.expander(repo, fi)
        # every return statement (every path), not only the last one
        rets = [n for n in walk_no_nested(fi.node) if isinstance(n, ast.Return)]
        if not rets:
            raise AnalysisError(f"{name} has no return statement")

        def _picklable(v):
            if isinstance(v, ast.IfExp):
                return _picklable(v.body) and _picklable(v.orelse)
            if isinstance(v, ast.Name):
                if v.id in cu.functions:
                    return True
                # a local name: every assignment to it in this function must be picklable
                asg = [n.value for n in walk_no_nested(fi.node) if isinstance(n, ast.Assign) and
                       any(isinstance(t, ast.Name) and t.id == v.id for t in n.targets)]
                return bool(asg) and all(_picklable(a) for a in asg)
            return isinstance(v, ast.Call) and unparse(v.func) in ("partial", "functools.partial") and v.args and \
                isinstance(v.args[0], ast.Name) and v.args[0].id in cu.functions and \
                not any(isinstance(x, (ast.Lambda,)) for a in list(v.args[1:]) + [k.value for k in v.keywords] for x in ast.walk(a))

        for rn in rets:
            ok = rn.value is not None and _picklable(rn.value)
            col.check(ok, R, fi, f"{name}: `{unparse(rn)[:60]}` returns a module-level function or a functools.partial of one",
                      "picklable by reference",
                      f"{name} returns `{unparse(rn.value)[:80] if rn.value else None}` on one path: a lambda / nested function / other "
                      f"object here makes SWC cells that take this path unpicklable (pickle.dumps raises)",
                      node=rn)
    rs = repo.func("jaxley/io/swc.py", "read_swc")
    ex = idx.expander(repo, rs)
    st = [s for s in ex.stores if s.kind == "attr" and s.key.name == "_radius_generating_fns"]
    col.check(bool(st) and _has_closure(st[0].value) is None, R, rs, "read_swc stores only the radius functions built by the helpers", "",
              "a closure is stored in _radius_generating_fns", node=st[0].node if st else rs.node)
    sj = repo.func("jaxley/io/swc.py", "swc_to_jaxley")
    exs = idx.expander(repo, sj)
    r = exs.returns[-1] if exs.returns else None
    fns = r.args[2] if r is not None and r.op == "tuple" and len(r.args) > 2 else None
    ok = fns is not None and _has_closure(fns) is None
    col.check(ok, R, sj, "swc_to_jaxley returns radius functions free of closures", "", f"returns {fns.short(80) if fns else None}", node=sj.node)
    rg = repo.func("jaxley/utils/cell_utils.py", "_radius_generating_fns")
    exr = idx.expander(repo, rg)
    apps = [s for s in exr.stores if s.kind == "mcall" and s.key.name == "append"]
    ok = bool(apps) and all(T.find(s.value, lambda x: x.op == "call" and x.name == "_radius_generating_fn") is not None and
                            _has_closure(s.value) is None for s in apps)
    col.check(ok, R, rg, "_radius_generating_fns collects the results of _radius_generating_fn", "",
              "radius functions are not built by the picklable helper", node=rg.node)


PROTOCOL = ("__deepcopy__", "__getstate__", "__setstate__", "__reduce__", "__reduce_ex__", "__getnewargs__", "__getnewargs_ex__")


def _enumerated_state(m: ast.FunctionDef, e: ast.AST):
    """the keys of a state that is written out key by key (`{"a": self.a, "b": self.b}`, possibly through a local): a set of names, else None"""
    if isinstance(e, ast.Name):
        asg = [n.value for n in ast.walk(m) if isinstance(n, ast.Assign) and any(isinstance(t, ast.Name) and t.id == e.id for t in n.targets)]
        if len(asg) != 1:
            return None
        e = asg[0]
    if isinstance(e, ast.Dict) and e.keys and all(isinstance(k, ast.Constant) and isinstance(k.value, str) for k in e.keys):
        return {k.value for k in e.keys}
    if isinstance(e, ast.Call) and isinstance(e.func, ast.Name) and e.func.id == "dict" and not e.args and e.keywords and all(k.arg for k in e.keywords):
        return {k.arg for k in e.keywords}
    return None


def protocol_findings(cls_node: ast.ClassDef, late_attrs=()):
    """Findings (verdict, method node, construct, reason) for custom copy/pickle protocol methods of one class.
    verdict: 'ok' | 'bad' | 'unk'.  The default protocol (no method) deep-copies / pickles the complete
    instance dictionary, so the obligation only exists for classes that override it."""
    out = []
    for m in cls_node.body:
        if not isinstance(m, ast.FunctionDef) or m.name not in PROTOCOL:
            continue
        args = [a.arg for a in m.args.args]
        me = args[0] if args else "self"
        src = unparse(m)
        bad = []
        for n in ast.walk(m):
            # memo[id(X)] = X   (pre-seeding the memo: X is shared between original and copy)
            if isinstance(n, ast.Assign) and len(n.targets) == 1 and isinstance(n.targets[0], ast.Subscript):
                t = n.targets[0]
                if isinstance(t.slice, ast.Call) and unparse(t.slice.func) == "id" and t.slice.args and \
                        unparse(t.slice.args[0]) == unparse(n.value) and unparse(n.value) != me:
                    bad.append((n, f"`{unparse(n)}` pre-seeds the deepcopy memo: `{unparse(n.value)}` is shared by reference between the "
                                   f"original and every copy, editing it through the copy alters the original"))
            # new.attr = self.attr  /  state[k] = self.k  without a copy
            if isinstance(n, ast.Assign) and isinstance(n.value, ast.Attribute) and isinstance(n.value.value, ast.Name) and \
                    n.value.value.id == me and n.value.attr not in ("__class__", "__dict__") and m.name == "__deepcopy__":
                tgt = n.targets[0]
                memo_seed = isinstance(tgt, ast.Subscript) and isinstance(tgt.slice, ast.Call) and unparse(tgt.slice.func) == "id"
                if isinstance(tgt, (ast.Attribute, ast.Subscript)) and not memo_seed:
                    bad.append((n, f"`{unparse(n)}` hands `{unparse(n.value)}` to the copy by reference (no deepcopy)"))
            # dropping keys from the state
            if isinstance(n, ast.Delete) and m.name in ("__getstate__", "__reduce__", "__reduce_ex__"):
                bad.append((n, f"`{unparse(n)}` removes an attribute from the pickled state: the loaded module is not identical"))
            if isinstance(n, ast.Call) and isinstance(n.func, ast.Attribute) and n.func.attr in ("pop", "popitem", "clear") and \
                    m.name in ("__getstate__", "__reduce__", "__reduce_ex__", "__deepcopy__"):
                bad.append((n, f"`{unparse(n)[:60]}` removes an attribute from the copied / pickled state"))
        if bad:
            for n, why in bad:
                out.append(("bad", m, unparse(n)[:80], why))
            continue
        whole = f"{me}.__dict__" in src
        if m.name in ("__reduce__", "__reduce_ex__"):
            # (callable, args): the object is REBUILT by calling `callable(*args)`; nothing but the arguments survives.  With a
            # third element (the state) the default __setstate__ restores the instance dictionary.
            rets = [r.value for r in ast.walk(m) if isinstance(r, ast.Return) and r.value is not None]
            shapes = []
            for v in rets:
                if isinstance(v, ast.Tuple) and len(v.elts) == 2:
                    shapes.append("rebuild")
                elif isinstance(v, ast.Tuple) and len(v.elts) >= 3 and f"{me}.__dict__" in unparse(v.elts[2]) or \
                        (isinstance(v, ast.Tuple) and len(v.elts) >= 3 and unparse(v.elts[2]).startswith(f"{me}.__getstate__(")):
                    shapes.append("state")
                elif isinstance(v, ast.Call) and unparse(v.func) in ("super().__reduce__", "super().__reduce_ex__", "object.__reduce_ex__", "object.__reduce__"):
                    shapes.append("state")
                elif isinstance(v, ast.Tuple) and len(v.elts) >= 3 and _enumerated_state(m, v.elts[2]) is not None:
                    shapes.append("partial")
                    partial_keys = _enumerated_state(m, v.elts[2])
                else:
                    shapes.append("?")
            if shapes and all(s_ == "state" for s_ in shapes):
                out.append(("ok", m, m.name, "the complete instance dictionary is the pickled state"))
            elif "partial" in shapes and set(late_attrs) - set(partial_keys):
                lost = sorted(set(late_attrs) - set(partial_keys))
                out.append(("bad", m, m.name, f"`{unparse(rets[shapes.index('partial')])[:90]}` rebuilds the object through its constructor and restores only "
                            f"{sorted(partial_keys)}: what the object acquired or edited after construction ({', '.join(lost[:5])}{', ...' if len(lost) > 5 else ''}) is lost -- "
                            f"e.g. the `controlled_by_param` column a selection writes into its tables, which decides how make_trainable shares parameters"))
            elif "rebuild" in shapes and late_attrs:
                ex_ = ", ".join(sorted(late_attrs)[:4])
                out.append(("bad", m, m.name, f"`{unparse(rets[shapes.index('rebuild')])[:80]}` rebuilds the object by calling the constructor and carries no state: "
                            f"everything the object acquired after construction (attributes set outside __init__: {ex_}, ...; edited tables) is lost "
                            f"in the copy / the loaded object"))
            else:
                out.append(("unk", m, m.name, "custom protocol method whose completeness this analysis cannot establish"))
            continue
        if m.name == "__deepcopy__":
            ok = whole and re.search(r"\bdeepcopy\(", src) is not None
        elif m.name == "__setstate__":
            ok = whole and ".update(" in src or f"{me}.__dict__ =" in src
        elif m.name == "__getstate__":
            ok = whole
        else:
            ok = False
        out.append(("ok" if ok else "unk", m, m.name, "copies the complete instance dictionary" if ok else
                    "custom protocol method whose completeness this analysis cannot establish"))
    return out


_POSITIVE = """
class X:
    def __deepcopy__(self, memo):
        memo[id(self.externals)] = self.externals
        new = self.__class__.__new__(self.__class__)
        memo[id(self)] = new
        new.__dict__.update(deepcopy(self.__dict__, memo))
        return new
class Y:
    def __deepcopy__(self, memo):
        new = self.__class__.__new__(self.__class__)
        memo[id(self)] = new
        new.__dict__.update(deepcopy(self.__dict__, memo))
        return new
    def __getstate__(self):
        state = self.__dict__.copy()
        del state['recordings']
        return state
class Z:
    def __reduce__(self):
        return (Z, (self.base, self.rows))
"""


def _protocol(repo, col):
    R = "R-C18-protocol"
    # positive examples that must match on every run (the expected count on the repository is zero)
    ex = ast.parse(_POSITIVE)
    fx = [f for c in ex.body for f in protocol_findings(c, {"_scope"})]
    got = sorted((c, m.name) for c, m, _, _ in fx)
    if got != [("bad", "__deepcopy__"), ("bad", "__getstate__"), ("bad", "__reduce__"), ("ok", "__deepcopy__")]:
        raise AnalysisError(f"copy-protocol rule does not recognise its reference examples: {got}")
    n = 0
    for cname, ci in sorted(repo.classes.items()):
        n += 1
        late = set()
        if any(isinstance(m_, ast.FunctionDef) and m_.name in ("__reduce__", "__reduce_ex__") for m_ in ci.node.body):
            for k in repo.mro(cname):
                for m_ in k.node.body:
                    if isinstance(m_, ast.FunctionDef) and m_.name not in ("__init__",) + PROTOCOL and m_.args.args:
                        me_ = m_.args.args[0].arg
                        for n_ in ast.walk(m_):
                            if isinstance(n_, (ast.Assign, ast.AugAssign, ast.AnnAssign)):
                                for t_ in (n_.targets if isinstance(n_, ast.Assign) else [n_.target]):
                                    if isinstance(t_, ast.Attribute) and isinstance(t_.value, ast.Name) and t_.value.id == me_:
                                        late.add(t_.attr)
                                    # ... and what is edited IN PLACE after construction: self.X[...] = v, self.X.loc[...] = v
                                    b_ = t_
                                    while isinstance(b_, (ast.Subscript, ast.Attribute)) and not (isinstance(b_, ast.Attribute) and isinstance(b_.value, ast.Name) and b_.value.id == me_):
                                        b_ = b_.value
                                    if b_ is not t_ and isinstance(b_, ast.Attribute) and isinstance(b_.value, ast.Name) and b_.value.id == me_:
                                        late.add(b_.attr)
        fs = protocol_findings(ci.node, late)
        if not fs:
            col.ok(R, ci.file, f"{cname} keeps the default copy / pickle protocol", "complete instance dictionary is copied", func=cname, node=ci.node)
        for verdict, m, construct, why in fs:
            title = f"{cname}.{m.name} copies the whole state and shares nothing with the original"
            if verdict == "ok":
                col.ok(R, ci.file, title, why, func=f"{cname}.{m.name}", node=m)
            elif verdict == "bad":
                col.bad(R, ci.file, title + f" [{construct}]", why, func=f"{cname}.{m.name}", node=m)
            else:
                col.unk(R, ci.file, title, why, func=f"{cname}.{m.name}", node=m)
    if n < 20:
        raise AnalysisError(f"only {n} classes scanned for copy-protocol methods")


def registry_findings(tree: ast.AST, imports=None):
    """Process-wide reducer registrations: `copyreg.pickle(T, fn)`, `copyreg.dispatch_table[T] = fn`, `copy._deepcopy_dispatch[T] = fn`
    (also through `from copyreg import pickle`).  They change how EVERY instance of T inside a module is pickled / copied."""
    imports = imports or {}
    out = []
    for n in ast.walk(tree):
        if isinstance(n, ast.Call):
            f = unparse(n.func)
            ext = imports.get(f)
            dotted = ext[1] if (ext and ext[0] == "ext") else f
            if dotted in ("copyreg.pickle", "copyreg.constructor") and n.args:
                out.append((n, n.args[0], n.args[1] if len(n.args) > 1 else None))
        if isinstance(n, ast.Assign):
            for t in n.targets:
                if isinstance(t, ast.Subscript) and unparse(t.value).split(".")[-1] in ("dispatch_table", "_deepcopy_dispatch", "_copy_dispatch"):
                    out.append((n, t.slice, n.value))
    return out


_POSITIVE_REG = """
import copyreg
copyreg.pickle(type(jnp.zeros(())), lambda x: (np.asarray, (np.asarray(x),)))
copy._deepcopy_dispatch[Cell] = lambda x, memo: x
"""


def _registry(repo, col):
    R = "R-C18-protocol"
    if len(registry_findings(ast.parse(_POSITIVE_REG))) != 2:
        raise AnalysisError("reducer-registration rule does not recognise its reference examples")
    n = 0
    for file, mi in sorted(repo.mods.items()):
        n += 1
        fs = registry_findings(mi.tree, mi.imports)
        if not fs:
            col.ok(R, file, "no process-wide pickle / copy reducer is registered", "", func="<module>", node=mi.tree)
            continue
        for node, typ, red in fs:
            tsrc, rsrc = unparse(typ), unparse(red) if red is not None else "?"
            # what the reducer rebuilds with: first element of the returned pair
            ctor = None
            body = red.body if isinstance(red, ast.Lambda) else None
            if isinstance(body, ast.Tuple) and body.elts:
                ctor = unparse(body.elts[0])
            jaxish = re.search(r"\b(jnp|jax)\b", tsrc) is not None
            changes_kind = ctor is not None and ctor.split(".")[0] in ("np", "numpy") and jaxish
            shares = isinstance(red, ast.Lambda) and isinstance(body, ast.Name) and body.id == red.args.args[0].arg
            verdict = "VIOLATED" if (changes_kind or shares) else "UNDECIDED"
            col.add(R, file, f"registered reducer for `{tsrc[:50]}` returns an identical, independent object", verdict,
                    (f"`{unparse(node)[:100]}`: every `{tsrc[:40]}` inside a module is rebuilt with `{ctor}` -- the loaded module holds numpy arrays "
                     f"where the original holds jax arrays (`.at[...]` of a later edit or of Network([...]) fails, trainables change kind)") if changes_kind else
                    (f"`{unparse(node)[:100]}` returns the object itself: copies share it with the original" if shares else
                     f"`{unparse(node)[:100]}`: a process-wide reducer whose result this analysis cannot compare with the default"),
                    func="<module>", node=node)
    if n < 20:
        raise AnalysisError(f"only {n} modules scanned for reducer registrations")


HIER = ("Module", "Channel", "Synapse", "Transform")


def _plain(repo, col):
    """pickle stores instances by the importable NAME of their class and their attributes by value.  (a) An attribute that
    holds a jax function object (jnp.tanh, jax.nn.softplus, a jitted function: not picklable by reference) makes every
    module that contains the object unpicklable; a numpy ufunc or a module-level function of the package is fine.  (b) A
    class whose name is rebound by a decorator that returns a function (the package's `deprecated`) can no longer be looked
    up by name: instances are not picklable although everything else works."""
    R = "R-C18-plain"
    n = 0
    for cname, ci in sorted(repo.classes.items()):
        if not any(b_.name in HIER for b_ in repo.mro(cname)):
            continue
        # (b) decorators of the class
        for d in ci.node.decorator_list:
            n += 1
            dn = d.func if isinstance(d, ast.Call) else d
            name = dn.id if isinstance(dn, ast.Name) else (dn.attr if isinstance(dn, ast.Attribute) else None)
            target = repo.resolve_name(repo.mods[ci.file], name) if name else None
            verdict, why = "UNDECIDED", f"decorator `{unparse(d)[:50]}` is not analysable"
            fn = None
            if target is not None and hasattr(target, "methods") and "__call__" in target.methods:
                fn = target.methods["__call__"].node
            elif target is not None and hasattr(target, "node") and isinstance(target.node, ast.FunctionDef):
                fn = target.node
            if fn is not None:
                rets = [r for r in ast.walk(fn) if isinstance(r, ast.Return) and r.value is not None]
                inner = {f.name for f in ast.walk(fn) if isinstance(f, ast.FunctionDef) and f is not fn}
                params = [a.arg for a in fn.args.args if a.arg != "self"]
                returns_wrapper = any(isinstance(r.value, ast.Name) and r.value.id in inner for r in rets) or \
                    any(isinstance(r.value, ast.Lambda) for r in rets)
                returns_same = bool(rets) and all(isinstance(r.value, ast.Name) and r.value.id in params for r in rets)
                if returns_wrapper:
                    verdict, why = "VIOLATED", (f"`@{unparse(d)[:40]}` returns a wrapper FUNCTION: the module-level name `{cname}` then "
                                                f"refers to that function, pickle cannot find the class of the instances by name "
                                                f"(PicklingError: not the same object)")
                elif returns_same:
                    verdict, why = "DISCHARGED", "decorator returns the class itself"
            col.add(R, ci.file, f"class {cname} stays importable under its own name (decorator {unparse(d)[:40]})", verdict, why,
                    func=cname, node=d)
        # (a) attributes assigned on self
        for m in ci.methods.values():
            ex = idx.expander(repo, m)
            for s_ in ex.stores:
                if s_.kind == "attr" and s_.base.op == "param" and s_.base.name == "self":
                    v = s_.value
                    root = v
                    while root.op == "attr":
                        root = root.args[0]
                    is_lib_fn = v.op == "attr" and root.op == "free" and root.name in ("jnp", "jax", "lax")
                    is_jit = v.op in ("call", "mcall", "callv") and (v.name in ("jit", "vmap", "grad", "checkpoint", "pmap") or
                                                                    (v.op == "callv" and v.args and v.args[0].pretty() in ("jax.jit", "jit", "vmap", "jax.vmap")))
                    n += 1
                    col.check(not (is_lib_fn or is_jit), R, m, f"{cname}.{m.name}: `self.{s_.key.name}` holds plain data",
                              "not a jax function object",
                              f"`{unparse(s_.node)[:70]}` stores a jax function object on the instance: jax functions are not picklable by "
                              f"reference, so pickle.dumps of every module containing a {cname} raises (deepcopy still works)", node=s_.node)
    # (c) the same for ANY object a package function stores into -- a synapse or channel handed in, an element of a module's list:
    # `synapse._vmapped = vmap(synapse.compute_current)` hangs a transformed closure on an object that lives inside the module
    nc = 0
    for fi in repo.all_functions():
        if not fi.file.startswith("jaxley/"):
            continue
        ex = idx.expander(repo, fi)
        for s_ in ex.stores:
            if s_.kind != "attr" or (s_.base.op == "param" and s_.base.name == "self"):
                continue
            nc += 1
            v = s_.value
            tr = T.find(v, lambda x: x.op in ("call", "mcall") and x.name in ("jit", "vmap", "grad", "value_and_grad", "checkpoint", "pmap", "remat"))
            if tr is not None and v.op in ("call", "mcall", "callv", "ifexp", "phi"):
                col.bad(R, fi, f"{fi.qual}: `{unparse(s_.node)[:60]}` stores plain data",
                        f"`{unparse(s_.node)[:80]}` stores a jax-transformed function on an object: the wrapper is a local closure (here around a bound method), "
                        f"pickle.dumps of every module that contains the object raises once the line has run (e.g. after the first simulation), and a deep "
                        f"copy keeps calling the ORIGINAL's method", node=s_.node)
    if n < 20 or nc < 20:
        raise AnalysisError(f"only {n} attribute stores / decorators examined")


def _getattr(repo, col):
    R = "R-C18-getattr"
    fi = repo.method("Module", "__getattr__")
    body = [st for st in fi.node.body if not (isinstance(st, ast.Expr) and isinstance(st.value, ast.Constant))]
    kname = fi.params[1] if len(fi.params) > 1 else "key"
    SAMPLES = ("__deepcopy__", "__setstate__", "__getstate__", "__reduce_ex__", "__copy__", "__getnewargs_ex__", "__class__")

    def ev(e, k):
        """the value of a test on the looked-up name k (a small fragment of string predicates); None = not derivable"""
        is_k = lambda x: isinstance(x, ast.Name) and x.id == kname
        if isinstance(e, ast.BoolOp):
            vs = [ev(v, k) for v in e.values]
            if isinstance(e.op, ast.And):
                return False if False in vs else (None if None in vs else True)
            return True if True in vs else (None if None in vs else False)
        if isinstance(e, ast.UnaryOp) and isinstance(e.op, ast.Not):
            v = ev(e.operand, k)
            return None if v is None else (not v)
        if isinstance(e, ast.Call) and isinstance(e.func, ast.Attribute) and is_k(e.func.value) and e.func.attr in ("startswith", "endswith") and \
                len(e.args) == 1 and not e.keywords:
            a_ = e.args[0]
            pats = [a_.value] if isinstance(a_, ast.Constant) and isinstance(a_.value, str) else \
                ([x.value for x in a_.elts] if isinstance(a_, ast.Tuple) and all(isinstance(x, ast.Constant) and isinstance(x.value, str) for x in a_.elts) else None)
            if pats is None:
                return None
            return any(k.startswith(p_) if e.func.attr == "startswith" else k.endswith(p_) for p_ in pats)

        def sval(x):
            if is_k(x):
                return k
            if isinstance(x, ast.Constant) and isinstance(x.value, (str, int)):
                return x.value
            if isinstance(x, ast.Subscript) and is_k(x.value) and isinstance(x.slice, ast.Slice) and x.slice.step is None:
                lo, hi = x.slice.lower, x.slice.upper
                cv = lambda y: y is None or (isinstance(y, ast.Constant) and isinstance(y.value, int)) or \
                    (isinstance(y, ast.UnaryOp) and isinstance(y.op, ast.USub) and isinstance(y.operand, ast.Constant) and isinstance(y.operand.value, int))
                iv = lambda y: None if y is None else (y.value if isinstance(y, ast.Constant) else -y.operand.value)
                if cv(lo) and cv(hi):
                    return k[iv(lo):iv(hi)]
            if isinstance(x, ast.Call) and isinstance(x.func, ast.Name) and x.func.id == "len" and len(x.args) == 1 and is_k(x.args[0]):
                return len(k)
            if isinstance(x, (ast.Tuple, ast.List, ast.Set)) and all(isinstance(y, ast.Constant) for y in x.elts):
                return [y.value for y in x.elts]
            return None
        if isinstance(e, ast.Compare) and len(e.ops) == 1:
            l_, r_ = sval(e.left), sval(e.comparators[0])
            if l_ is None or r_ is None:
                return None
            o = e.ops[0]
            try:
                if isinstance(o, ast.Eq):
                    return l_ == r_
                if isinstance(o, ast.NotEq):
                    return l_ != r_
                if isinstance(o, ast.In):
                    return l_ in r_
                if isinstance(o, ast.NotIn):
                    return l_ not in r_
                if isinstance(o, (ast.Lt, ast.LtE, ast.Gt, ast.GtE)) and isinstance(l_, int) and isinstance(r_, int):
                    return {ast.Lt: l_ < r_, ast.LtE: l_ <= r_, ast.Gt: l_ > r_, ast.GtE: l_ >= r_}[type(o)]
            except TypeError:
                return None
        return None

    def plain_lookup(st):
        """`return super().__getattribute__(key)` / `return object.__getattribute__(self, key)` / `raise AttributeError(...)`"""
        if isinstance(st, ast.Return) and isinstance(st.value, ast.Call) and isinstance(st.value.func, ast.Attribute) and \
                st.value.func.attr == "__getattribute__" and any(isinstance(a_, ast.Name) and a_.id == kname for a_ in st.value.args):
            return True
        return isinstance(st, ast.Raise) and st.exc is not None and "AttributeError" in unparse(st.exc)
    first = next((st for st in body if isinstance(st, ast.If) and st.body and plain_lookup(st.body[0])), None)
    vals = {k_: ev(first.test, k_) for k_ in SAMPLES} if first is not None else {}
    missed = [k_ for k_, v_ in vals.items() if v_ is False]
    unk_ = [k_ for k_, v_ in vals.items() if v_ is None]
    col.add(R, fi, "dunder names are resolved by object.__getattribute__ first",
            "VIOLATED" if (first is None or missed) else ("UNDECIDED" if unk_ else "DISCHARGED"),
            "if key.startswith('__'): return super().__getattribute__(key)" if first is not None and not missed and not unk_ else
            ("__getattr__ has no guard that hands dunder names to the plain attribute lookup: deepcopy/pickle look up __deepcopy__/__setstate__ on a "
             "half-built object, `self.base` is missing and __getattr__ recurses" if first is None else
             (f"the guard `{unparse(first.test)[:60]}` does not hold for {missed}: these are looked up on a half-built object by deepcopy / pickle, "
              f"`self.base` is missing and __getattr__ recurses" if missed else
              f"whether the guard `{unparse(first.test)[:60]}` holds for every dunder name is not derivable")), node=first or fi.node)
    # nothing before the guard touches self.<attr>
    touched = []
    for st in fi.node.body:
        if st is first:
            break
        for n in ast.walk(st):
            if isinstance(n, ast.Attribute) and isinstance(n.value, ast.Name) and n.value.id == "self":
                touched.append(unparse(n))
    col.check(not touched, R, fi, "no attribute of self is read before the dunder guard", "", f"reads {touched} before the guard", node=fi.node)


MODULE_PARAM_NAMES = ("self", "module", "net", "network", "cell", "view", "pointer", "branch", "comp")


def _memo(repo, col, R="R-C18-memo"):
    """A cache keyed on the identity of a module -- functools.lru_cache / cache on a function that receives the module,
    cached_property, jax.jit with the module as a STATIC argument (the trace bakes the module's tables in and is looked up by
    identity and argument shapes) -- is state that lives outside the instance: it is not carried by pickle / deepcopy, and it
    goes stale when the module is edited.  The original then simulates from the stale entry while a copy recomputes it, so
    a module and its copy are no longer interchangeable."""
    CACHES = ("lru_cache", "cache", "cached_property", "memoize", "memoized")
    n = 0
    for fi in repo.all_functions():
        if not fi.file.startswith("jaxley/"):
            continue
        node = fi.node
        if not isinstance(node, (ast.FunctionDef, ast.AsyncFunctionDef)):
            continue
        a = node.args
        names = [x.arg for x in a.posonlyargs + a.args]
        takes_module = bool(fi.cls and any(b_.name == "Module" for b_ in repo.mro(fi.cls))) or \
            any(nm in MODULE_PARAM_NAMES[1:] for nm in names)
        if not takes_module:
            continue
        n += 1
        bad = None
        for d in node.decorator_list:
            txt = unparse(d)
            base = txt.split("(")[0].split(".")[-1]
            if base in CACHES:
                bad = (d, f"`@{txt}` memoises the result per argument identity")
            # jit / partial(jit, static_argnums=...) with the module argument static
            is_jit = base == "jit" or (base == "partial" and isinstance(d, ast.Call) and d.args and unparse(d.args[0]).split(".")[-1] == "jit")
            if is_jit and isinstance(d, ast.Call):
                for k in d.keywords:
                    if k.arg in ("static_argnums", "static_argnames"):
                        vals = [e_.value for e_ in (k.value.elts if isinstance(k.value, (ast.Tuple, ast.List)) else [k.value])
                                if isinstance(e_, ast.Constant)]
                        pos = [names.index(nm) for nm in names if nm in MODULE_PARAM_NAMES]
                        if any((isinstance(v, int) and v in pos) or (isinstance(v, str) and v in MODULE_PARAM_NAMES) for v in vals):
                            bad = (d, f"`@{txt}` compiles one trace per module IDENTITY with the module's tables baked in")
        col.check(bad is None, R, fi, f"{fi.qual}: no cache keyed on a module", "plain function / method",
                  f"{bad[1] if bad else ''}: the entry is not part of the pickled / deep-copied state and goes stale when the module is "
                  f"edited (set_ncomp, connect, ...); the original keeps using it while a copy recomputes, so the two simulate differently",
                  node=bad[0] if bad else node)
    if n < 20:
        raise AnalysisError(f"only {n} functions that receive a module were scanned for identity-keyed caches")


def _tracer(repo, col, R="R-C18-tracer"):
    """`integrate` is routinely wrapped in jax.jit / grad / vmap.  Whatever it stores ON THE MODULE while it is being traced
    (the caches rebuilt by to_jax) must be a concrete array: a value produced by a jax operation during tracing is a tracer,
    it outlives the trace, and the module can then neither be pickled nor deep-copied (ConcretizationTypeError).  Every
    store into the module on the integrate path whose value is computed with jax must therefore sit inside
    `with jax.ensure_compile_time_eval():`."""
    from sa.effects import Effects
    E = Effects(repo)
    ig = repo.func("jaxley/integrate.py", "integrate")
    effs = [e for e in E.summary(ig) if e.root == "module"]
    if not effs:
        raise AnalysisError("integrate no longer stores anything on the module (effects analysis lost to_jax?)")

    def enclosing_cte(fi, node):
        """is `node` lexically inside `with ...ensure_compile_time_eval():` in fi?"""
        found = [False]

        def rec(n, inside):
            if n is node and inside:
                found[0] = True
            for ch in ast.iter_child_nodes(n):
                ins = inside
                if isinstance(n, (ast.With, ast.AsyncWith)) and ch in n.body:
                    ins = inside or any(unparse(i.context_expr).replace("jax.", "").startswith("ensure_compile_time_eval(") for i in n.items)
                rec(ch, ins)
        rec(fi.node, False)
        return found[0]

    seen = set()
    n = 0
    for e in effs:
        st = e.node
        if not isinstance(st, ast.stmt):
            # the effect carries the target expression: take the statement that assigns to it
            st = next((a_ for a_ in ast.walk(e.fi.node) if isinstance(a_, (ast.Assign, ast.AugAssign, ast.AnnAssign)) and
                       any(t_ is e.node for t_ in (a_.targets if isinstance(a_, ast.Assign) else [a_.target]))), st)
        k = (e.fi.qual, getattr(st, "lineno", 0))
        if k in seen:
            continue
        seen.add(k)
        val = getattr(st, "value", None)
        if val is None:
            continue
        jcalls = [c for c in ast.walk(val) if isinstance(c, ast.Call) and isinstance(c.func, ast.Attribute) and
                  unparse(c.func).split(".")[0] in ("jnp", "jax", "lax")]
        if not jcalls:
            continue
        n += 1
        # the operands too: a local that was computed with jax OUTSIDE the guard is already a tracer, and indexing / combining a
        # concrete array with a tracer gives a tracer even inside ensure_compile_time_eval()
        def outside_operand(expr, depth=0, seen_names=()):
            for nm in [x for x in ast.walk(expr) if isinstance(x, ast.Name) and isinstance(x.ctx, ast.Load)]:
                if nm.id in seen_names:
                    continue
                for a_ in ast.walk(e.fi.node):
                    if isinstance(a_, ast.Assign) and any(isinstance(t_, ast.Name) and t_.id == nm.id for t_ in a_.targets) and a_ is not st:
                        jc = [c for c in ast.walk(a_.value) if isinstance(c, ast.Call) and isinstance(c.func, ast.Attribute) and
                              unparse(c.func).split(".")[0] in ("jnp", "jax", "lax")]
                        if jc and not enclosing_cte(e.fi, a_):
                            return a_
                        if depth < 3:
                            r_ = outside_operand(a_.value, depth + 1, seen_names + (nm.id,))
                            if r_ is not None:
                                return r_
            return None
        if enclosing_cte(e.fi, st):
            op_ = outside_operand(val)
            col.check(op_ is None, R, e.fi, f"{e.fi.qual}: the operands of `{unparse(st)[:50]}` are concrete as well",
                      "every jax-computed operand is computed inside the guard",
                      f"`{unparse(op_)[:70] if op_ is not None else ''}` is computed with jax OUTSIDE `ensure_compile_time_eval()` and then used in "
                      f"`{unparse(st)[:60]}`: under jax.jit it is a tracer, so the stored value is a tracer too (the guard only helps for "
                      f"operations on concrete operands); pickle / deepcopy of the module fail afterwards", node=op_ or st)
        col.check(enclosing_cte(e.fi, st), R, e.fi, f"{e.fi.qual}: `{unparse(st)[:60]}` stores a concrete array on the module",
                  "inside `with ensure_compile_time_eval()`",
                  f"`{unparse(st)[:80]}` computes the stored value with jax ({unparse(jcalls[0].func)}) outside "
                  f"`ensure_compile_time_eval()`: when integrate runs under jax.jit the value is a tracer that stays on the module, and "
                  f"pickle.dumps(module) / copy.deepcopy(module) raise afterwards", node=st)
    if n < 2:
        raise AnalysisError(f"only {n} jax-computed stores on the module found on the integrate path")


def _share(repo, col):
    R = "R-C18-share"
    n = 0
    for fi in repo.all_functions():
        if fi.cls is None:
            continue
        if not any(b_.name in ("Module", "Channel", "Synapse", "Transform") for b_ in repo.mro(fi.cls)):
            continue  # only objects that live on (or are) modules
        a = fi.node.args
        defaults = dict(zip([x.arg for x in (a.posonlyargs + a.args)][-len(a.defaults):] if a.defaults else [], a.defaults))
        for k, d in zip(a.kwonlyargs, a.kw_defaults):
            if d is not None:
                defaults[k.arg] = d
        mutable = {p for p, d in defaults.items() if isinstance(d, (ast.List, ast.Dict, ast.Set)) or
                   (isinstance(d, ast.Call) and unparse(d.func) in ("list", "dict", "set"))}
        if not mutable:
            continue
        ex = idx.expander(repo, fi)
        for p in sorted(mutable):
            n += 1
            def on_module(b):
                while b.op == "attr" and b.args:
                    b = b.args[0]   # self.X = p  and  self.base.X = p
                return b.op == "param" and b.name == "self"
            bad = [s for s in ex.stores if s.kind == "attr" and on_module(s.base) and
                   s.value is not None and s.value.op == "param" and s.value.name == p]
            col.check(not bad, R, fi, f"mutable default `{p}` of {fi.qual} is not stored on the instance", "",
                      f"`{unparse(bad[0].node) if bad else ''}` stores the shared default object: all instances (and their copies) "
                      f"share it", node=bad[0].node if bad else fi.node)
    # class-level containers mutated through an instance: state that lives on the CLASS is neither pickled nor copied, and is
    # shared by every module in the process.  An attribute is per-instance only if some __init__ in the MRO assigns it.
    def is_mutable(v):
        return isinstance(v, (ast.Dict, ast.List, ast.Set, ast.ListComp, ast.DictComp, ast.SetComp)) or \
            (isinstance(v, ast.Call) and unparse(v.func) in ("list", "dict", "set", "defaultdict", "OrderedDict", "collections.defaultdict",
                                                               "np.zeros", "np.array", "np.asarray", "pd.DataFrame"))
    for cname in ("Module", "View", "Compartment", "Branch", "Cell", "Network", "Channel", "Synapse"):
        ci = repo.classes.get(cname)
        if ci is None:
            continue
        mro = repo.mro(cname)
        cattrs = {}
        for c_ in mro:
            for k, v in c_.attrs.items():
                if is_mutable(v):
                    cattrs.setdefault(k, c_.name)
        per_instance = set()
        for c_ in mro:
            init = c_.methods.get("__init__")
            if init is not None:
                per_instance |= {s2.key.name for s2 in idx.expander(repo, init).stores
                                 if s2.kind == "attr" and s2.base.op == "param" and s2.base.name == "self"}
        for m in ci.methods.values():
            ex = idx.expander(repo, m)
            for s in ex.stores:
                if s.kind not in ("sub", "mcall", "aug"):
                    continue
                if s.kind == "mcall" and s.key.name not in ("append", "extend", "insert", "update", "pop", "remove", "clear", "add", "setdefault",
                                                              "popitem", "sort", "reverse", "discard"):
                    continue
                tgt = s.base
                if tgt.op != "attr" or tgt.name not in cattrs:
                    continue
                recv = tgt.args[0]
                on_instance = idx._is_module_recv(recv) or (recv.op == "attr" and recv.name == "__class__") or \
                    (recv.op == "call" and recv.name == "type") or (recv.op in ("name", "free", "global") and recv.name in [c_.name for c_ in mro])
                if not on_instance:
                    continue
                k = tgt.name
                shadowed = k in per_instance and idx._is_module_recv(recv)
                n += 1
                col.check(shadowed, R, m, f"`{tgt.pretty()}` mutated in {m.qual} is per-instance state",
                          f"assigned in __init__ (class-level default of {cattrs[k]} is shadowed)",
                          f"`{unparse(s.node)[:70]}` mutates the container that `{cattrs[k]}.{k}` defines on the CLASS and that no __init__ "
                          f"replaces by a per-instance object: it is not part of the pickled / deep-copied state, and every module in the "
                          f"process (original and copies) shares it", node=s.node)
        for k in sorted(k_ for k_, own in cattrs.items() if own == cname):
            n += 1
            col.ok(R, ci.file, f"class-level container {cname}.{k} recorded", "", func=cname, node=ci.node)
    fi = repo.method("Network", "__init__")
    exn = idx.expander(repo, fi)
    # whatever reaches self.xyzr from a cell is a deep copy
    xs = [s_ for s_ in exn.stores if (s_.kind in ("aug", "mcall") and s_.base.op == "attr" and s_.base.name == "xyzr" and _self(s_.base.args[0])) or
          (s_.kind == "attr" and s_.key.name == "xyzr" and _self(s_.base))]
    shared, copied = [], 0
    for s_ in xs:
        def scan(t, under_copy):
            nonlocal copied
            if t.op == "attr" and t.name == "xyzr" and not _self(t.args[0]):
                if under_copy:
                    copied += 1
                else:
                    shared.append(t)
                return
            uc = under_copy or (t.op in ("call", "mcall") and t.name in ("deepcopy",))
            for a_ in list(t.args) + list(t.kw.values()):
                scan(a_, uc)
        if s_.value is not None:
            scan(s_.value, False)
    col.add(R, fi, "Network copies the coordinates of its cells", "DISCHARGED" if (copied and not shared) else ("VIOLATED" if shared else "UNDECIDED"),
            "deepcopy(cell.xyzr)" if (copied and not shared) else
            ("the network stores the coordinate arrays of its cells themselves: moving the network moves the cells (and copies share them)"
             if shared else "no store of cell coordinates into self.xyzr found"), node=xs[0].node if xs else fi.node)
    dels = [n_ for n_ in fi.node.body if isinstance(n_, ast.Delete) and any(isinstance(t_, ast.Attribute) and t_.attr == "_cells_list" and
                                                                            isinstance(t_.value, ast.Name) and t_.value.id == "self" for t_ in n_.targets)]
    dels += [n_ for n_ in fi.node.body if isinstance(n_, ast.Assign) and isinstance(n_.value, ast.Constant) and n_.value.value is None and
             any(isinstance(t_, ast.Attribute) and t_.attr == "_cells_list" for t_ in n_.targets)]
    col.check(bool(dels), R, fi, "Network drops its reference to the cell list after construction", "del self._cells_list (unconditional)",
              "the network keeps the list of cells it was built from: pickles and copies of the network carry (and share) the cells", node=fi.node)
    vi = repo.method("View", "__init__")
    exv = idx.expander(repo, vi)
    bs = [s_ for s_ in exv.stores if s_.kind == "attr" and s_.key.name == "base" and _self(s_.base)]
    ok = bool(bs) and all(s_.value.op == "attr" and s_.value.name == "base" and s_.value.args[0].op == "param" for s_ in bs)
    col.check(ok, R, vi, "a View shares the base module by reference (by design) and nothing else mutable of the pointer",
              "self.base = pointer.base", f"View stores {[s_.value.short(40) for s_ in bs]} as its base", node=vi.node)
    if n < 3:
        raise AnalysisError("sharing rule found too few instances")


def _state_arguments(repo, col, R="R-C18-tracer"):
    """Module.step hands parts of the module's OWN state to the voltage steppers (`"debug_states": self.debug_states`, the solve
    indexer, the index arrays), and the steppers run while integrate is being traced.  A stepper that writes into such an argument
    (`debug_states["vecfield"] = vecfield`) writes a tracer into the module: it outlives the trace, and the module can no longer be
    pickled or deep-copied.  Every function that receives one of these objects -- directly or handed on by name -- only reads it."""
    from sa.effects import MUTATORS
    from sa.core import FuncInfo
    fi = repo.method("Module", "step")
    ex = idx.expander(repo, fi)
    # keyword -> value for everything that reaches the steppers through the keyword dictionary
    state_kw = {}
    for n in walk_no_nested(fi.node):
        pairs = []
        if isinstance(n, ast.Dict):
            pairs = [(k.value, v) for k, v in zip(n.keys, n.values) if isinstance(k, ast.Constant) and isinstance(k.value, str)]
        elif isinstance(n, ast.Assign) and len(n.targets) == 1 and isinstance(n.targets[0], ast.Subscript) and isinstance(n.targets[0].slice, ast.Constant) \
                and isinstance(n.targets[0].slice.value, str):
            pairs = [(n.targets[0].slice.value, n.value)]
        for k, v in pairs:
            t = ex.term(v)
            # the object itself (not a fresh array computed from it): self.X / self.X.Y
            cur = t
            while cur.op == "attr":
                cur = cur.args[0]
            if t.op == "attr" and _self(cur):
                state_kw[k] = t
    if len(state_kw) < 4:
        raise AnalysisError(f"Module.step: only {sorted(state_kw)} recognised as module state handed to the steppers")
    col.info["module_state_handed_to_steppers"] = sorted(state_kw)
    SVF = "jaxley/solver_voltage.py"
    work = []
    for name in ("step_voltage_explicit", "step_voltage_implicit_with_jaxley_spsolve", "step_voltage_implicit_with_jax_spsolve"):
        f = repo.func(SVF, name)
        for p in f.params:
            if p in state_kw:
                work.append((f, p))
    seen = set()
    n = 0
    while work:
        f, p = work.pop()
        if (f.qual, f.file, p) in seen:
            continue
        seen.add((f.qual, f.file, p))
        exf = idx.expander(repo, f)

        def root_is_p(t):
            cur = t
            while cur is not None and cur.op in ("attr", "sub") and cur.args:
                cur = cur.args[0]
            return cur is not None and cur.op == "param" and cur.name == p
        writes = [s_ for s_ in exf.stores if s_.base is not None and root_is_p(s_.base) and
                  (s_.kind in ("sub", "attr", "aug") or (s_.kind == "mcall" and s_.key is not None and s_.key.name in MUTATORS))]
        n += 1
        col.check(not writes, R, f, f"{f.qual}: `{p}` (module state handed in by Module.step) is only read",
                  "no store into it",
                  f"`{unparse(writes[0].node)[:80] if writes else ''}` writes into `{p}`, which is the module's own object: inside integrate the value "
                  f"written is a tracer, it stays on the module after the trace, and pickle / deepcopy of the module fail", node=writes[0].node if writes else f.node)
        for c in exf.calls:
            if not isinstance(c.func, ast.Name):
                continue
            g = repo.resolve_name(repo.mods[f.file], c.func.id)
            if not isinstance(g, FuncInfo) or g.cls is not None:
                continue
            names = [a_.arg for a_ in g.node.args.posonlyargs + g.node.args.args]
            for i_, a_ in enumerate(c.args):
                if isinstance(a_, ast.Name) and i_ < len(names):
                    t_ = exf.term(a_)
                    if t_.op == "param" and t_.name == p:
                        work.append((g, names[i_]))
            for k_ in c.keywords:
                if k_.arg and isinstance(k_.value, ast.Name):
                    t_ = exf.term(k_.value)
                    if t_.op == "param" and t_.name == p and (k_.arg in names or k_.arg in [x.arg for x in g.node.args.kwonlyargs]):
                        work.append((g, k_.arg))
    col.info["state_argument_sites_checked"] = n


def _inplace_registry(repo, col, R="R-C18-share"):
    """The arrays held in a module's registries (`groups`, `external_inds`, `indices_set_by_trainables`, ...) are shared objects: add_to_group
    stores the view's own index array, a group made from a group view is a VIEW of the first group's memory, pandas hands out read-only
    arrays.  pickle / deepcopy turn all of them into owned, writeable, independent arrays.  A method that edits such an array IN PLACE
    (`inds[mask] += shift` on `np.asarray(entry)`, which does not copy) therefore behaves differently on a module and on its copy -- aliased
    entries are shifted twice, read-only ones raise.  Registry entries are replaced, never written into."""
    REG = {"groups", "external_inds", "externals", "indices_set_by_trainables", "trainable_params", "recordings"}
    NOCOPY = {"asarray", "asanyarray", "atleast_1d", "ravel", "reshape", "view", "squeeze"}
    n = 0
    for cls_ in ("Module", "View", "Network", "Cell", "Branch", "Compartment"):
        if cls_ not in repo.classes:
            continue
        for nm, fi in repo.cls(cls_).methods.items():
            ex = idx.expander(repo, fi)
            for s_ in ex.stores:
                if s_.kind not in ("sub", "aug") or s_.base is None:
                    continue
                b = s_.base
                while (b.op in ("mcall", "call") and b.name in NOCOPY and b.args):
                    b = next((a_ for a_ in b.args if a_.op != "free"), b.args[0])
                # an ELEMENT of a registry (not the registry itself, whose entries may be replaced)
                if b.op not in ("sub", "elem", "item"):
                    continue
                reg = T.find(b, lambda x: x.op == "attr" and x.name in REG and T.find(x, lambda y: y.op == "param" and y.name == "self") is not None)
                if reg is None:
                    continue
                if s_.kind == "aug" and not isinstance(getattr(s_.node, "target", None), ast.Subscript):
                    continue   # `x += y` on a name rebinds for arrays only if ... (handled by the store of the result); only element writes here
                n += 1
                col.bad(R, fi, f"{cls_}.{nm}: entries of `{reg.name}` are replaced, not written into",
                        f"`{unparse(s_.node)[:70]}` writes into an array that is (an alias of) an entry of `{reg.pretty()}`: `np.asarray` does not copy, the entry can "
                        f"be shared with another group / a view's index array or be read-only; after pickle / deepcopy it is an owned writeable array, so the same "
                        f"edit gives another result on the copy than on the original", node=s_.node)
    col.ok(R, "jaxley/modules/base.py", "registry entries are replaced, never edited in place", f"{n} in-place writes into registry entries", func="Module") if n == 0 else None


def _sentinels(repo, col, R="R-C18-share"):
    """A module-level `SENTINEL = object()` is recognised by IDENTITY (`x is SENTINEL`).  Identity survives neither pickle nor deepcopy: the
    copy holds a fresh `object()`, every `is SENTINEL` test on it is False, and the placeholder is taken for a real value.  Only the
    singletons that pickle by reference (None, True/False, Ellipsis, NotImplemented, classes, functions, enum members) may play this role
    in what is stored on a module or a view."""
    n = 0
    for rel, mi in sorted(repo.mods.items()):
        if not rel.startswith("jaxley/"):
            continue
        sent = {}
        for st in mi.tree.body:
            if isinstance(st, ast.Assign) and len(st.targets) == 1 and isinstance(st.targets[0], ast.Name) and isinstance(st.value, ast.Call) and \
                    isinstance(st.value.func, ast.Name) and st.value.func.id == "object" and not st.value.args:
                sent[st.targets[0].id] = st
        if not sent:
            continue
        for fi in repo.all_functions():
            if fi.file != rel or not fi.cls:
                continue
            ex = idx.expander(repo, fi)
            for s_ in ex.stores:
                if s_.kind != "attr" or s_.value is None:
                    continue
                b = s_.base
                while b.op == "attr" and b.args:
                    b = b.args[0]
                if not (b.op == "param" and b.name == "self"):
                    continue
                hit = T.find(s_.value, lambda x: x.op in ("free", "global", "name") and x.name in sent)
                if hit is None:
                    continue
                n += 1
                tested = any(isinstance(c, ast.Compare) and any(isinstance(o, (ast.Is, ast.IsNot)) for o in c.ops) and
                             any(isinstance(x, ast.Name) and x.id == hit.name for x in ast.walk(c))
                             for f2 in repo.all_functions() if f2.file == rel for c in ast.walk(f2.node))
                col.check(not tested, R, fi, f"`{hit.name}` stored in `self.{s_.key.name}` is not recognised by identity",
                          "placeholders in module state are None (or another by-reference singleton)",
                          f"`{hit.name} = object()` is put into `self.{s_.key.name}` and later recognised with `is {hit.name}`: pickle / deepcopy give the copy a NEW "
                          f"object() in its place, the identity test fails on the copy and the placeholder is treated as a real entry "
                          f"(AttributeError, or a foreign object used as a mechanism)", node=s_.node)
    col.info["object_sentinels_in_state"] = n
