"""C16 -- SWC import preserves the traced morphology (two narrow clauses)."""
from __future__ import annotations

import ast

from sa.algebra import Und, Rat, PW, SymArr, rat_of, parse_ref, ONE
from sa.core import AnalysisError, unparse, walk_no_nested
from sa.terms import Expander, T
from . import idx, kin

LEVEL = "other"
CU = "jaxley/utils/cell_utils.py"
SW = "jaxley/io/swc.py"
EXPLANATION = (
    "Mostly NOT decidable statically (graph algorithms over file contents: section splitting, parent "
    "lookup, path lengths, max_branch_len). Claimed narrowly: R-C16-stale -- in the SWC helper loops a "
    "read of a variable that the loop body itself assigns must not be *must-stale*: on every feasible "
    "path through the iteration that reaches the read (paths correlated on syntactically identical "
    "tests) no assignment of the same iteration precedes it and no assignment before the loop dominates "
    "the loop entry, so the value can only come from a previous iteration or from a different loop. "
    "R-C16-forms -- _radius is linear interpolation between the bracketing traced radii (exact form); "
    "compartment centres are (i+1/2)/ncomp; radii are clipped from below at min_radius; a one-point "
    "section has length 2r; zero path length becomes 1.0; per-compartment length = path length / ncomp; "
    "the SWC type lookup is total on 0..5 and names larger types custom<k>."
)
ASSUMPTIONS = ["numpy digitize/linspace semantics", "connectivity, splitting and soma conventions for arbitrary files are not decided"]


def check(repo, col, tier):
    col.rule("R-C16-stale", "no must-stale read of a loop-assigned variable in the SWC helpers", 3)
    col.rule("R-C16-forms", "interpolation / centre / clipping / length conventions", 8)
    _ids_to_rows(repo, col, "R-C16-forms")
    _columns(repo, col, "R-C16-forms")
    # the parents the reader returns become the cell's tree: branch k hangs on comb_parents[k], and the children of one parent meet at ONE
    # branch point whatever the order of the sections in the file (shared with C12 / C01)
    from . import c12 as _c12, c01_solver as _c01s
    col.rule("R-C16-tree", "the cell built from the file has the file's connectivity (branch edges, branch points, levels)", 10)
    _c12._cell_branch_edges(repo, col, "R-C16-tree")
    _c01s._levels(repo, col, "R-C16-tree")
    col.rule("R-C16-switches", "optional conventions of the reader are off by default", 3)
    _switches(repo, col, "R-C16-switches")
    col.rule("R-C16-fresh", "every import reads the file: no step of the reader is memoised", 10)
    _fresh(repo, col, "R-C16-fresh")
    col.rule("R-C16-split", "max_branch_len splitting, parent lookup and sorting keep sections, types and connectivity together", 8)
    _split(repo, col)
    _stale(repo, col)
    _forms(repo, col)
    _clamps(repo, col)


def _clamps(repo, col, R="R-C16-forms"):
    """`x[x < t] = v` in the SWC helpers: raising the values below a threshold t to the threshold itself is continuous (a guard
    against division by zero); raising them to another value v changes every value below t by a jump -- e.g. a zero-length
    traced segment would suddenly take up 1 um of its section in the radius interpolation."""
    n = 0
    for name in ("_radius_generating_fn", "_radius_generating_fns", "_compute_pathlengths", "build_radiuses_from_xyzr"):
        try:
            fi = repo.func(CU, name)
        except Exception:
            continue
        ex = idx.expander(repo, fi)
        for s_ in ex.stores:
            if s_.kind == "sub" and s_.key.op == "cmp" and s_.key.name in ("<", "<=") and s_.value is not None and \
                    s_.key.args[0].key() == s_.base.key():
                thr, val = s_.key.args[1], s_.value
                n += 1
                col.check(thr.key() == val.key(), R, fi, f"{name}: values below a threshold are raised to that threshold",
                          f"x[x < {thr.short(20)}] = {val.short(20)}",
                          f"`{unparse(s_.node)[:60]}` raises every value below {thr.short(20)} to {val.short(20)}: the clamp is not "
                          f"continuous, so (for the segment lengths) a zero-length traced segment takes up {val.short(12)} um of its "
                          f"section and shifts the interpolated radius profile", node=s_.node)
        # maximum(x, t) / clip(x, t) raise to the threshold by construction
        seen = set()
        for t_ in list(ex.returns) + [s_.value for s_ in ex.stores if s_.value is not None]:
            if t_ is None:
                continue
            for x in t_.walk():
                if x.op in ("mcall", "call") and x.name in ("maximum", "clip") and x.key() not in seen:
                    lo = (x.kw.get("a_min") or x.kw.get("min") or (x.args[2] if (x.op == "mcall" and len(x.args) > 2) else None)) \
                        if x.name == "clip" else True
                    if lo is not None and not (lo is not True and lo.op == "const" and lo.name is None):
                        seen.add(x.key())
                        n += 1
                        col.ok(R, fi, f"{name}: values below a threshold are raised to that threshold", f"`{x.short(50)}`", node=x.node or fi.node)
    if n < 2:
        raise AnalysisError(f"only {n} lower clamps found in the SWC helpers")


# --------------------------------------------------------------------------------------
# must-stale reads


def _names_stored(node):
    """Names assigned by a statement; comprehension variables are local to the comprehension."""
    out = set()
    todo = [node]
    while todo:
        n = todo.pop()
        if isinstance(n, (ast.ListComp, ast.SetComp, ast.DictComp, ast.GeneratorExp, ast.Lambda, ast.FunctionDef)):
            continue
        if isinstance(n, ast.Name) and isinstance(n.ctx, ast.Store):
            out.add(n.id)
        todo.extend(ast.iter_child_nodes(n))
    return out


def _atoms(test, pos=True):
    if isinstance(test, ast.BoolOp) and isinstance(test.op, ast.And) and pos:
        return [a for v in test.values for a in _atoms(v, True)]
    if isinstance(test, ast.BoolOp) and isinstance(test.op, ast.Or) and not pos:
        return [a for v in test.values for a in _atoms(v, False)]
    if isinstance(test, ast.UnaryOp) and isinstance(test.op, ast.Not):
        return _atoms(test.operand, not pos)
    return [(unparse(test), pos)]


def _paths(stmts, facts, defined, reads, loopvars):
    if not stmts:
        yield facts, defined
        return
    st, rest = stmts[0], stmts[1:]

    def use(expr, defined_now):
        for n in ast.walk(expr):
            if isinstance(n, ast.Name) and isinstance(n.ctx, ast.Load) and n.id in loopvars:
                reads.append((n.id, n, n.id in defined_now))

    if isinstance(st, ast.If):
        use(st.test, defined)
        for branch, pos in ((st.body, True), (st.orelse, False)):
            atoms = _atoms(st.test, pos)
            if any(facts.get(t) is not None and facts[t] != p for t, p in atoms):
                continue
            f2 = dict(facts)
            for t, p in atoms:
                f2[t] = p
            for f3, d3 in _paths(branch, f2, set(defined), reads, loopvars):
                yield from _paths(rest, f3, d3, reads, loopvars)
        return
    if isinstance(st, (ast.For, ast.While)):
        d2 = set(defined) | _names_stored(st)
        yield from _paths(rest, facts, d2, reads, loopvars)
        return
    if isinstance(st, (ast.Assign, ast.AugAssign, ast.AnnAssign)):
        if getattr(st, "value", None) is not None:
            use(st.value, defined)
        if isinstance(st, ast.AugAssign):
            use(st.target, defined)
        d2 = set(defined)
        f2 = dict(facts)
        for x in _names_stored(st):
            d2.add(x)
            f2 = {k: v for k, v in f2.items() if x not in {n.id for n in ast.walk(ast.parse(k, mode="eval")) if isinstance(n, ast.Name)}}
        yield from _paths(rest, f2, d2, reads, loopvars)
        return
    if isinstance(st, (ast.Break, ast.Continue, ast.Return, ast.Raise)):
        for ch in ast.iter_child_nodes(st):
            if isinstance(ch, ast.expr):
                use(ch, defined)
        yield facts, defined
        return
    for ch in ast.iter_child_nodes(st):
        if isinstance(ch, ast.expr):
            use(ch, defined)
    yield from _paths(rest, facts, defined, reads, loopvars)


def _definitely_assigned_before(body, i, params):
    """Names definitely assigned on every path through body[:i] (if/elif/else chains whose last branch raises count)."""
    out = set(params)
    for st in body[:i]:
        if isinstance(st, (ast.Assign, ast.AugAssign, ast.AnnAssign)):
            out |= _names_stored(st)
        elif isinstance(st, ast.If):
            branches = []
            node = st
            while True:
                branches.append(node.body)
                if len(node.orelse) == 1 and isinstance(node.orelse[0], ast.If):
                    node = node.orelse[0]
                    continue
                branches.append(node.orelse)
                break
            sets = []
            for b in branches:
                if b and isinstance(b[-1], ast.Raise):
                    continue
                s = set()
                for x in b:
                    if isinstance(x, (ast.Assign, ast.AugAssign, ast.AnnAssign)):
                        s |= _names_stored(x)
                sets.append(s)
            if sets and branches[-1]:
                out |= set.intersection(*sets)
        elif isinstance(st, (ast.With,)):
            out |= _definitely_assigned_before(st.body, len(st.body), [])
    return out


def _stale(repo, col):
    R = "R-C16-stale"
    n_loops = 0
    targets = []
    for f in (CU, SW):
        mi = repo.mod(f)
        targets += list(mi.functions.values())
    for fi in targets:
        body = fi.node.body
        for i, st in enumerate(body):
            if not isinstance(st, (ast.For, ast.While)):
                continue
            n_loops += 1
            assigned = set()
            for x in st.body:
                assigned |= _names_stored(x)
            target = _names_stored(st.target) if isinstance(st, ast.For) else set()
            init = _definitely_assigned_before(body, i, fi.params)
            loopvars = assigned - target - init
            if not loopvars:
                col.ok(R, fi, f"loop at `{unparse(st).splitlines()[0][:60]}`", "every loop-assigned variable is initialised before the loop", node=st)
                continue
            reads = []
            list(_paths(st.body, {}, set(), reads, loopvars))
            by = {}
            for name, node, ok in reads:
                by.setdefault((name, node.lineno, node.col_offset), [node, []])[1].append(ok)
            stale = [(k, v) for k, v in by.items() if not any(v[1])]
            if not stale:
                col.ok(R, fi, f"loop at `{unparse(st).splitlines()[0][:60]}`",
                       f"loop-assigned {sorted(loopvars)} are assigned before use on some path of the iteration", node=st)
            for (name, ln, _c), (node, oks) in stale:
                # where could the value come from?
                prev = [j for j, p in enumerate(body[:i]) if isinstance(p, (ast.For, ast.While)) and name in _names_stored(p)]
                src = "the last iteration of an earlier loop" if prev else "a previous iteration"
                col.bad(R, fi, f"read of `{name}` in `{unparse(_enclosing_stmt(st, node))[:70]}`",
                        f"`{name}` is read on {len(oks)} path(s) through the loop body on none of which the iteration has assigned "
                        f"it, and nothing assigns it before the loop: its value comes from {src} (e.g. the SWC type of the *last* "
                        f"row of the file is used for the first row)", node=node)
    if n_loops < 8:
        raise AnalysisError(f"only {n_loops} top-level loops found in the SWC helpers")


def _enclosing_stmt(loop, node):
    best = loop
    for st in ast.walk(loop):
        if isinstance(st, ast.stmt) and not isinstance(st, (ast.For, ast.While, ast.If)):
            for n in ast.walk(st):
                if n is node:
                    best = st
    return best


# --------------------------------------------------------------------------------------


def _forms(repo, col):
    R = "R-C16-forms"
    # ---- _radius: linear interpolation
    fi = repo.func(CU, "_radius")
    ev = kin.new_eval(repo)

    def hook(ev_, e, env, ctx):
        if isinstance(e.value, ast.Name) and e.value.id in ("radiuses", "cutoffs"):
            i = rat_of(ev_.ev(e.slice, env, ctx))
            off = i - Rat.atom("i")
            if off.is_const():
                return PW.of(Rat.atom(f"{e.value.id}[i{int(off.const_value()):+d}]"))
        return None

    ev.sub_hooks.append(hook)
    ev.PRIMS = dict(ev.PRIMS)
    ev.PRIMS["digitize"] = lambda self, a, k, n: PW.of(Rat.atom("i"))
    try:
        val = rat_of(ev.call(fi, [kin.A("loc"), kin.A("cutoffs"), kin.A("radiuses")]))
        env = {nm: PW.of(Rat.atom(a)) for nm, a in (("r0", "radiuses[i-1]"), ("r1", "radiuses[i+0]"), ("c0", "cutoffs[i-1]"), ("c1", "cutoffs[i+0]"))}
        want = parse_ref(ev, "r0 + (r1 - r0)*(loc - c0)/(c1 - c0)", env)
        col.check(val.eq(want), R, fi, "_radius: linear interpolation between the bracketing traced radii",
                  "r[i-1] + (r[i] - r[i-1]) * (loc - c[i-1]) / (c[i] - c[i-1])", f"_radius evaluates to {val}", node=fi.node,
                  sides={"code": repr(val), "oracle": repr(want)})
    except Und as e:
        col.unk(R, fi, "_radius", f"outside the analysable fragment: {e}", node=fi.node)
    dg = next((n for n in ast.walk(fi.node) if isinstance(n, ast.Call) and unparse(n.func).endswith("digitize")), None)
    ok = dg is not None and [unparse(a) for a in dg.args[:2]] == ["loc", "cutoffs"]
    col.check(ok, R, fi, "_radius: the bracket is found by digitize(loc, cutoffs)", "", f"digitize call {unparse(dg) if dg else None}", node=dg or fi.node)
    # ---- the cut-offs the interpolation brackets with: cumulative traced lengths WITH the leading 0, as fractions of the total
    #      (n traced points -> n radii -> n cut-offs 0 = c_0 < ... < c_{n-1} = 1; without the 0 the k-th radius sits at the END of
    #      segment k and every radius is read one traced point too early)
    gf = repo.func(CU, "_radius_generating_fn")
    gex = idx.expander(repo, gf)
    gr = gex.returns[-1] if gex.returns else None
    ct = gr.kw.get("cutoffs") if gr is not None and gr.op in ("call", "mcall") else None
    if ct is None:
        col.unk("R-C16-forms", gf, "_radius_generating_fn: cut-offs", "the cut-offs handed to _radius were not found", node=gf.node)
    else:
        is_zero = lambda z: T.find(z, lambda y: y.op == "const" and y.name in (0, 0.0)) is not None and \
            T.find(z, lambda y: y.op == "param") is None
        num = ct.args[0] if (ct.op == "binop" and ct.name == "/") else None
        cs = T.find(num, lambda x: x.op in ("mcall", "call") and x.name in ("cumsum", "cumsum_leading_zero")) if num is not None else None
        lead = False
        if cs is not None and cs.name == "cumsum_leading_zero":
            lead = True
        elif cs is not None:
            inner = T.find(cs, lambda x: x is not cs and x.op == "mcall" and x.name in ("concatenate", "hstack", "append", "insert", "pad"))
            outer = T.find(num, lambda x: x.op == "mcall" and x.name in ("concatenate", "hstack", "append", "insert", "pad") and T.find(x, lambda y: y is cs) is not None)
            for c_ in (inner, outer):
                if c_ is not None:
                    parts = c_.args[1].args if (len(c_.args) > 1 and c_.args[1].op in ("list", "tuple")) else [a_ for a_ in c_.args if a_.op != "free"]
                    lead = lead or (bool(parts) and is_zero(parts[0])) or c_.name in ("insert", "pad")
        norm = ct.op == "binop" and ct.name == "/" and T.find(ct.args[1], lambda x: x.op in ("mcall", "call") and x.name == "sum") is not None
        col.add("R-C16-forms", gf, "_radius_generating_fn: cut-offs are the cumulative lengths with a leading 0, divided by the total length",
                "DISCHARGED" if (lead and norm) else ("VIOLATED" if (cs is not None and not lead) or (cs is not None and not norm) else "UNDECIDED"),
                "cumsum([0, *lengths]) / sum(lengths)" if (lead and norm) else
                f"the cut-offs are `{ct.short(90)}`" + ("; the leading 0 is missing: n radii are bracketed with n - 1 interior cut-offs shifted by one segment, so "
                                                        "every location reads the radii of the neighbouring traced points" if cs is not None and not lead else
                                                        ("; they are not normalised by the total length" if cs is not None else "")), node=gf.node)
    # ---- compartment centres
    fi = repo.func(CU, "build_radiuses_from_xyzr")
    ev = kin.new_eval(repo)
    ls = next((n for n in ast.walk(fi.node) if isinstance(n, ast.Call) and unparse(n.func).endswith("linspace")), None)
    env = {"ncomp": kin.A("n")}
    ctx = {"mod": repo.mods[fi.file], "cls": None, "defining_cls": None}
    if ls is None:
        # the same centres from a counter: (arange(ncomp) + 1/2) / ncomp
        ar = next((st for st in fi.node.body if isinstance(st, ast.Assign) and isinstance(st.targets[0], ast.Name) and
                   any(isinstance(n, ast.Call) and unparse(n.func).endswith("arange") for n in ast.walk(st.value))), None)
        if ar is None:
            raise AnalysisError("build_radiuses_from_xyzr: the compartment centres (linspace / arange) vanished")
        ev.PRIMS = dict(ev.PRIMS)

        def _arange(self, a, k, n):
            if len(a) == 1 and not k and rat_of(a[0]).eq(Rat.atom("n")):
                return PW.of(Rat.atom("i"))
            raise Und("arange with other arguments than the number of compartments")
        ev.PRIMS["arange"] = _arange
        try:
            for st in fi.node.body:
                if isinstance(st, ast.Assign) and st.lineno < ar.lineno and isinstance(st.targets[0], ast.Name):
                    try:
                        env[st.targets[0].id] = ev.ev(st.value, env, ctx)
                    except Und:
                        pass
            val = rat_of(ev.ev(ar.value, env, ctx))
            want = parse_ref(ev, "(i + 1/2)/n", {"i": PW.of(Rat.atom("i")), "n": kin.A("n")})
            col.check(val.eq(want), R, fi, "compartment centres are (i + 1/2)/ncomp, i = 0..ncomp-1", "(arange(n) + 1/2)/n",
                      f"centres are {val} for i = 0..n-1", node=ar)
        except Und as e:
            col.unk(R, fi, "compartment centres", str(e), node=ar)
        centres_node = ar.value
    else:
      centres_node = ls
      try:
          for st in fi.node.body:
              if isinstance(st, ast.Assign) and st.lineno < ls.lineno and isinstance(st.targets[0], ast.Name):
                  try:
                      env[st.targets[0].id] = ev.ev(st.value, env, ctx)
                  except Und:
                      pass
          a, b, c = (rat_of(ev.ev(x, env, ctx)) for x in ls.args[:3])
          ok = a.eq(parse_ref(ev, "1/(2*n)")) and b.eq(parse_ref(ev, "1 - 1/(2*n)")) and c.eq(Rat.atom("n"))
          col.check(ok, R, fi, "compartment centres are (i + 1/2)/ncomp, i = 0..ncomp-1", "linspace(1/(2n), 1 - 1/(2n), n)",
                    f"centres are linspace({a}, {b}, {c})", node=ls)
      except Und as e:
          col.unk(R, fi, "compartment centres", str(e), node=ls)
    ex = idx.expander(repo, fi)
    # clipping from below: x[x < min_radius] = min_radius, or maximum(x, min_radius) / clip(x, min_radius, None) in the returned value
    clipped, wrong, copied = False, None, None
    for s_ in ex.stores:
        if s_.kind == "sub" and s_.key.op == "cmp" and s_.value is not None:
            k = s_.key
            thr = [a_ for a_ in k.args if a_.op == "param" and a_.name == "min_radius"]
            arr = [a_ for a_ in k.args if a_.key() == s_.base.key()]
            if thr and arr:
                below = (k.name in ("<", "<=") and k.args[0] is arr[0]) or (k.name in (">", ">=") and k.args[1] is arr[0])
                if below and s_.value.op == "param" and s_.value.name == "min_radius":
                    # ... in the array that is RETURNED: the same array, or one that shares its memory (ravel / reshape / .T are views of a
                    # contiguous array); flatten(), copy(), astype() and np.array() are copies that were taken before the clip
                    rets = [r_ for r_ in ex.returns if r_ is not None]
                    def shares(ret, base):
                        t_ = ret
                        while True:
                            if t_.key() == base.key():
                                return True
                            if t_.op == "mcall" and t_.name in ("ravel", "reshape", "view", "squeeze", "transpose") and t_.args and t_.args[0].op != "free":
                                t_ = t_.args[0]
                            elif t_.op == "attr" and t_.name == "T":
                                t_ = t_.args[0]
                            else:
                                return False
                    if rets and not any(shares(r_, s_.base) or shares(s_.base, r_) for r_ in rets):
                        wrong = s_
                        copied = s_
                    else:
                        clipped = True
                else:
                    wrong = s_
    for r_ in ex.returns:
        for x in r_.walk():
            if x.op in ("mcall", "call") and x.name == "maximum" and any(a_.op == "param" and a_.name == "min_radius" for a_ in x.args):
                clipped = True
            if x.op in ("mcall", "call") and x.name == "clip":
                lo = x.kw.get("a_min") or x.kw.get("min") or (x.args[2] if (x.op == "mcall" and len(x.args) > 2) else None)
                if lo is not None and lo.op == "param" and lo.name == "min_radius":
                    clipped = True
    upper = None   # minimum(x, min_radius) / clip(x, max=min_radius): the bound is applied from ABOVE
    for r_ in ex.returns:
        for x in r_.walk():
            if x.op in ("mcall", "call") and x.name == "minimum" and any(a_.op == "param" and a_.name == "min_radius" for a_ in x.args):
                upper = x
            if x.op in ("mcall", "call") and x.name == "clip":
                hi = x.kw.get("a_max") or x.kw.get("max") or (x.args[3] if (x.op == "mcall" and len(x.args) > 3) else None)
                if hi is not None and hi.op == "param" and hi.name == "min_radius":
                    upper = x
    if upper is not None:
        col.bad(R, fi, "radii below min_radius are raised to min_radius",
                f"`{upper.short(70)}` bounds the radii from ABOVE by min_radius: every radius larger than min_radius is cut down to it and "
                f"the small ones stay as they are", node=upper.node or fi.node)
    else:
        col.add(R, fi, "radii below min_radius are raised to min_radius", "DISCHARGED" if clipped else ("VIOLATED" if wrong is not None else "UNDECIDED"),
            "x[x < min_radius] = min_radius" if clipped else
            (f"the clipping is `{unparse(wrong.node)[:70]}`: radii below min_radius must become min_radius and no other radius may change"
             + (" -- and in the array that is returned: this one is another array (the returned one was copied from it before the clip, "
                "e.g. with flatten()), so min_radius is silently ignored" if copied is not None else "")
             if wrong is not None else "clipping from below at min_radius not found"), node=wrong.node if wrong is not None else fi.node)
    # branch b is evaluated with ITS OWN radius function, at the centres
    calls_ = []
    from sa.terms import fuse_comprehensions as _fuse_c
    for t_ in list(ex.returns) + [s_.value for s_ in ex.stores if s_.value is not None]:
        calls_ += [x for x in _fuse_c(t_).walk() if x.op == "callv" and x.args and T.find(x.args[0], lambda y: y.op == "param" and y.name == "radius_fns") is not None]
    ok = maybe = False
    det = None
    for x in calls_:
        f_ = x.args[0]
        det = x.short(80)
        own = f_.op == "sub" and f_.args[0].op == "param" and f_.args[0].name == "radius_fns" and f_.args[1].op == "elem" and \
            f_.args[1].args[0].op == "param" and f_.args[1].args[0].name == "branch_indices"
        ck_ = ex.term(centres_node).key()      # the array whose values the centre rule above has decided
        arg_ = x.args[1] if len(x.args) == 2 else None
        while arg_ is not None and arg_.op == "mcall" and arg_.name in ("asarray", "array", "copy") and len(arg_.args) == 2:
            arg_ = arg_.args[1]
        at_centres = arg_ is not None and arg_.key() == ck_
        derived = arg_ is not None and not at_centres and T.find(arg_, lambda y: y.key() == ck_) is not None
        ok = ok or (own and at_centres)
        maybe = maybe or (own and derived)
    col.add(R, fi, "branch b is evaluated with its own radius function at the centres",
            "DISCHARGED" if ok else ("UNDECIDED" if (maybe or not calls_) else "VIOLATED"),
            "radius_fns[b](centres) for b in branch_indices" if ok else
            (f"the radius functions are applied as {det}" + (": the argument is derived from the centres but is not the centres array itself" if maybe else "")),
            node=fi.node)
    # ---- the dummy root of a multi-furcation at the first traced point: constant radius, whatever the locations
    pf = repo.func(CU, "_padded_radius")
    exp_ = idx.expander(repo, pf)
    rt = exp_.returns[0] if len(exp_.returns) == 1 else None
    if rt is None or len(pf.params) != 2:
        col.unk(R, pf, "_padded_radius(loc, radiuses) is the radius at every location", "return value not found", node=pf.node)
    else:
        LOC, RAD = pf.params
        LIKE = {"ones_like", "zeros_like", "full_like", "empty_like", "broadcast_to", "shape", "full", "ones", "zeros"}
        shape_src, value_src = set(), set()

        def walk_(t_, in_shape):
            if t_.op == "param":
                (shape_src if in_shape else value_src).add(t_.name)
                return
            if t_.op in ("mcall", "call") and t_.name in LIKE:
                a_ = [x for x in t_.args if x.op != "free"]
                if t_.name == "full_like" and len(a_) >= 2:
                    walk_(a_[0], True)
                    walk_(a_[1], False)
                    return
                if t_.name == "broadcast_to" and len(a_) >= 2:
                    walk_(a_[0], False)
                    walk_(a_[1], True)
                    return
                for x in a_:
                    walk_(x, True)
                return
            if t_.op == "attr" and t_.name == "shape":
                walk_(t_.args[0], True)
                return
            for x in list(t_.args) + list(t_.kw.values()):
                walk_(x, in_shape)
        walk_(rt, False)
        ok = value_src == {RAD} and shape_src == {LOC}
        col.add(R, pf, "_padded_radius(loc, radiuses) is the given radius at every location", "DISCHARGED" if ok else ("VIOLATED" if (value_src and shape_src) else "UNDECIDED"),
                "radiuses, in the shape of loc" if ok else
                f"returns {rt.short(60)}: the VALUE comes from {sorted(value_src)} and the SHAPE from {sorted(shape_src)}; the dummy root section that is prepended when "
                f"several sections leave the first traced point must have the radius of that point at all of its compartments, not the compartment locations", node=pf.node)
    # ---- path lengths (on normal forms: helpers inlined, conditionals lifted; operand order free)
    _pathlengths(repo, col)
    # ---- zero length, per-compartment length
    fi = repo.func(SW, "swc_to_jaxley")
    from sa.terms import nest
    exq = idx.expander(repo, fi)
    zs = [s_ for s_ in exq.stores if s_.kind == "sub" and s_.value is not None and s_.value.op == "const" and
          nest(s_.base, "sum", "each", "_compute_pathlengths")]
    zero_guard = lambda s_: any(g.op == "cmp" and g.name in ("==", "<=") and any(a_.op == "const" and a_.name in (0, 0.0) for a_ in g.args) and
                               T.find(g, lambda y: y.op == "elem") is not None for g in s_.guards)
    zs = [s_ for s_ in zs if zero_guard(s_)]
    if not zs:
        # the same convention as a conditional value: `L = sum(d); if L == 0: L = 1.0; lengths.append(L)`  /  `1.0 if L == 0 else L`
        class _S:   # a store-like record for the report below
            pass
        for t_ in [s_.value for s_ in exq.stores if s_.value is not None] + list(exq.returns):
            for x in t_.walk():
                if x.op == "ifexp" and x.args[0].op == "cmp" and x.args[0].name in ("==", "<=", "!=", ">") and \
                        any(a_.op == "const" and a_.name in (0, 0.0) for a_ in x.args[0].args) and \
                        any(nest(a_, "sum", "each", "_compute_pathlengths") for a_ in x.args[0].args):
                    when_zero = x.args[1] if x.args[0].name in ("==", "<=") else x.args[2]
                    other = x.args[2] if x.args[0].name in ("==", "<=") else x.args[1]
                    if when_zero.op == "const" and nest(other, "sum", "each", "_compute_pathlengths"):
                        r_ = _S()
                        r_.value, r_.node = when_zero, x.node or fi.node
                        zs.append(r_)
            if zs:
                break
    col.add(R, fi, "zero-length sections get length 1.0", "DISCHARGED" if any(s_.value.name == 1.0 for s_ in zs) else ("VIOLATED" if zs else "UNDECIDED"),
            "pathlengths[i] = 1.0 where the summed length is 0" if zs and any(s_.value.name == 1.0 for s_ in zs) else
            (f"zero-length sections are given length {zs[0].value.short()}" if zs else "zero-length convention not found"), node=zs[0].node if zs else fi.node)
    rt = exq.merged_return() or (exq.returns[-1] if exq.returns else None)
    pl = rt.args[1] if (rt is not None and rt.op == "tuple" and len(rt.args) > 1) else None
    if pl is None and rt is not None:
        pl = next((x.args[1] for x in rt.walk() if x.op == "tuple" and len(x.args) == 5), None)
    ok = pl is not None and nest(pl, "sum", "each", "_compute_pathlengths") and \
        T.find(pl, lambda x: x.op in ("mcall", "call") and x.name in ("max", "amax", "mean", "prod")) is None
    col.check(ok, R, fi, "branch length = sum of its segment lengths", "[np.sum(l) for l in _compute_pathlengths(...)]",
              f"returned path lengths are {pl.short(120) if pl is not None else None}: not the sum of the traced segment lengths", node=fi.node)
    # in-place clamping of the traced segment lengths must not precede the path-length computation
    from sa.effects import Effects
    E = Effects(repo)
    exs = idx.expander(repo, fi)
    body = fi.node.body
    def stmt_index(pred):
        for i_, st_ in enumerate(body):
            for n_ in ast.walk(st_):
                if pred(n_):
                    return i_
        return None
    # located by what they do (no local name): the statement that sums what _compute_pathlengths returned, and the comparison
    # of such a sum with zero; `seg` is the local that holds the per-branch segment lengths
    seg = next((n_.targets[0].id for n_ in body if isinstance(n_, ast.Assign) and isinstance(n_.targets[0], ast.Name) and
                isinstance(n_.value, ast.Call) and isinstance(n_.value.func, ast.Name) and n_.value.func.id == "_compute_pathlengths"), None)
    # (an assignment of a comprehension, or a loop that appends the sums: the top-level statement that sums over `seg`)
    i_len = next((i_ for i_, st_ in enumerate(body)
                  if any(isinstance(y, ast.Call) and unparse(y.func).split(".")[-1] == "sum" for y in ast.walk(st_)) and
                  any(isinstance(y, ast.Name) and isinstance(y.ctx, ast.Load) and y.id == seg for y in ast.walk(st_))), None)
    i_zero = stmt_index(lambda n_: isinstance(n_, ast.Compare) and len(n_.ops) == 1 and isinstance(n_.ops[0], ast.Eq) and
                        isinstance(n_.comparators[0], ast.Constant) and n_.comparators[0].value in (0, 0.0))
    mutators = []
    for c in exs.calls:
        if isinstance(c.func, ast.Name):
            cf = E.resolve_func(c.func.id, fi)
            if cf is None:
                continue
            params = cf.params
            for e_ in E.summary(cf):
                if e_.root.startswith("param:") and e_.root[6:] in params:
                    k = params.index(e_.root[6:])
                    if k < len(c.args) and unparse(c.args[k]) == seg:
                        mutators.append((c, e_))
    if i_len is None or i_zero is None:
        raise AnalysisError("swc_to_jaxley: path-length computation / zero-length guard not found")
    for c, e_ in mutators:
        i_c = stmt_index(lambda n_: n_ is c)
        col.check(i_c is not None and i_c > max(i_len, i_zero), R, fi,
                  f"`{unparse(c.func)}` (clamps the traced segment lengths in place) runs after the path lengths are taken",
                  "path lengths and the zero-length convention see the traced values",
                  f"`{unparse(c.func)}(...)` mutates the traced segment lengths in place ({e_.describe()[:80]}) and now runs before the path "
                  f"lengths are summed: a zero-length section sums to 1e-8 instead of triggering the 1.0 um convention", node=c)
    if not mutators:
        col.ok(R, fi, "no callee mutates the traced segment lengths before they are summed", "", node=fi.node)
    # neurite-type change is judged against the PARENT branch
    rg = repo.func(CU, "_radius_generating_fns")
    g = next((n for n in walk_no_nested(rg.node) if isinstance(n, ast.If) and "types[" in unparse(n.test)), None)
    if g is None:
        col.unk(R, rg, "type change between a branch and its parent", "guard not found", node=rg.node)
    else:
        cmps = [x for x in ast.walk(g.test) if isinstance(x, ast.Compare) and "types[" in unparse(x)]
        t = unparse(cmps[0]).replace(" ", "") if cmps else ""
        # types[k] != types[parents[k]] for the SAME loop index k, whatever it is called
        ok = False
        if cmps and isinstance(cmps[0].ops[0], ast.NotEq):
            sides = [cmps[0].left, cmps[0].comparators[0]]
            def own(x):   # types[k] -> k
                return unparse(x.slice) if (isinstance(x, ast.Subscript) and unparse(x.value) == "types" and isinstance(x.slice, ast.Name)) else None
            def par(x):   # types[parents[k]] -> k
                return unparse(x.slice.slice) if (isinstance(x, ast.Subscript) and unparse(x.value) == "types" and isinstance(x.slice, ast.Subscript)
                                                  and unparse(x.slice.value) == "parents" and isinstance(x.slice.slice, ast.Name)) else None
            for a_, b_ in (sides, sides[::-1]):
                if own(a_) is not None and own(a_) == par(b_):
                    ok = True
        if not ok:
            # the same relation on terms: types[k] vs types[parents[k]] with k the position in the loop over the branches -- the parent may
            # come from `parents[k]` or as the lock-step element of `zip(all_branches, parents)`
            from sa.terms import align_positions as _ap
            exg = idx.expander(repo, rg)
            tt = _ap(exg.term(g.test))
            TY, PA = "types", "parents"
            def own_ix(x):
                return x.args[1] if (x.op == "sub" and x.args[0].op == "param" and x.args[0].name == TY and x.args[1].op == "pos") else None
            def par_of(x, k):
                if not (x.op == "sub" and x.args[0].op == "param" and x.args[0].name == TY):
                    return False
                b = x.args[1]
                if b.op == "sub" and b.args[0].op == "param" and b.args[0].name == PA and b.args[1].key() == k.key():
                    return True
                if b.op == "elem" and b.args and b.args[0].op == "param" and b.args[0].name == PA and k.op == "pos":
                    # the lock-step element of `parents` in a loop whose position is k: zip(all_branches, parents) / enumerate(parents)
                    src = k.args[0]
                    return (src.op == "call" and src.name == "zip" and any(a_.op == "param" and a_.name == PA for a_ in src.args)) or \
                        (src.op == "param" and src.name == PA)
                if b.op == "item" and isinstance(b.name, int) and b.args and b.args[0].op == "elem" and b.args[0].args[0].op == "call" and b.args[0].args[0].name == "zip":
                    z = b.args[0].args[0]
                    return b.name < len(z.args) and z.args[b.name].op == "param" and z.args[b.name].name == PA and \
                        (k.args[0].key() == z.key() or any(k.args[0].key() == a_.key() for a_ in z.args))
                return False
            for c_ in tt.walk():
                if c_.op == "cmp" and c_.name == "!=" and len(c_.args) == 2:
                    for a_, b_ in (c_.args, c_.args[::-1]):
                        k = own_ix(a_)
                        if k is not None and par_of(b_, k):
                            ok = True
        wrong = bool(cmps) and not ok and "parent" not in t
        col.add(R, rg, "first radius of a branch is replaced iff its type differs from its PARENT's type",
                "DISCHARGED" if ok else ("VIOLATED" if wrong else "UNDECIDED"),
                "types[i] != types[parents[i]]" if ok else
                f"the type of branch i is compared with `{t}`: the neighbour in list order is not the parent branch, so radii at "
                f"branch points of multi-neurite cells are not the interpolation of the traced radii", node=g)
    fi = repo.func(SW, "read_swc")
    src = unparse(fi.node)
    exr = idx.expander(repo, fi)
    from sa.terms import canon
    sets = [s_ for s_ in exr.stores if s_.kind == "mcall" and s_.key.name == "set" and len(s_.value.args) >= 3 and
            s_.value.args[1].op == "const" and s_.value.args[1].name == "length"]
    ok, got = False, None
    if sets:
        got = canon(idx.inline(repo, fi, sets[0].value.args[2], keep=("swc_to_jaxley",), value_only=True))   # thin wrappers of the reader are looked through
        # repeat(P, n) / n with P the path lengths returned by swc_to_jaxley and n the SAME count in both places
        def alts(t):
            return alts(t.args[1]) + alts(t.args[2]) if t.op == "ifexp" else [t]

        def form(d):
            d = idx.value_norm(d)
            is_P = lambda P: P.op == "item" and P.name == 1 and P.args[0].op == "call" and P.args[0].name == "swc_to_jaxley"
            # repeat(P, n) / n   or   repeat(P / n, n): each of the n compartments of a branch gets 1/n of its path length
            if d.op == "binop" and d.name == "/" and d.args[0].op == "mcall" and d.args[0].name == "repeat" and len(d.args[0].args) == 3:
                rp = d.args[0]
                P, n1, n2 = rp.args[1], rp.args[2], d.args[1]
                return n1.key() == n2.key() and is_P(P)
            if d.op == "mcall" and d.name == "repeat" and len(d.args) == 3 and d.args[1].op == "binop" and d.args[1].name == "/":
                P, n2, n1 = d.args[1].args[0], d.args[1].args[1], d.args[2]
                return n1.key() == n2.key() and is_P(P)
            return False
        ok = all(form(d) for d in alts(got))
    col.add(R, fi, "compartment length = path length of its branch / ncomp", "DISCHARGED" if ok else ("VIOLATED" if got is not None else "UNDECIDED"),
            "np.repeat(pathlengths, ncomp) / ncomp" if ok else
            f"compartment lengths are set to {got.short(120) if got is not None else None}: each of the ncomp compartments of a branch must get "
            f"pathlength / ncomp", node=sets[0].node if sets else fi.node)
    lut = next((n for n in ast.walk(fi.node) if isinstance(n, ast.Dict) and len(n.keys) >= 5 and all(isinstance(k, ast.Constant) and isinstance(k.value, int) for k in n.keys)), None)
    got = {k.value: v.value for k, v in zip(lut.keys, lut.values)} if lut else {}
    want = {0: "undefined", 1: "soma", 2: "axon", 3: "basal", 4: "apical", 5: "custom"}
    col.check(got == want, R, fi, "SWC type names 0..5", str(got), f"type lookup is {got}", node=lut or fi.node)
    # groups: for every distinct type t, the branches whose type == t are added to the group named after t
    gs = [s_ for s_ in exr.stores if s_.kind == "mcall" and s_.key.name == "add_to_group"]
    ok, why = False, "group assignment not found"
    for s_ in gs:
        sel = s_.base  # cell.branch(IDX)
        if not (sel.op == "mcall" and sel.name == "branch" and len(sel.args) == 2):
            continue
        ix = sel.args[1]
        eq = T.find(ix, lambda x: x.op == "cmp" and x.name == "==" and any(a_.op == "elem" and a_.args[0].op == "mcall" and a_.args[0].name == "unique" for a_ in x.args))
        if eq is None:
            why = f"branches are selected by {ix.short(80)}"
            continue
        el = next(a_ for a_ in eq.args if a_.op == "elem")
        other = next(a_ for a_ in eq.args if a_ is not el)
        same_types = el.args[0].args[1].key() == other.key() if len(el.args[0].args) > 1 else False
        pos0 = T.find(ix, lambda x: x.op == "sub" and x.args[1].op == "const" and x.args[1].name == 0 and T.find(x.args[0], lambda y: y is eq) is not None) is not None or \
            T.find(ix, lambda x: x.op == "mcall" and x.name == "flatnonzero" and T.find(x, lambda y: y is eq) is not None) is not None or \
            (ix.op == "cmp" and ix is eq)   # the boolean mask itself selects the same branches
        name = s_.value.args[1] if len(s_.value.args) > 1 else None
        from .c11 import _str_parts
        named = False
        if name is not None:
            alts = name.args if name.op == "phi" else ([name.args[1], name.args[2]] if name.op == "ifexp" else [name])
            # lookup.get(k, f"custom{k}") is `lookup[k] if k in lookup else f"custom{k}"`
            if name.op == "mcall" and name.name == "get" and len(name.args) == 3 and name.args[0].op == "dict":
                alts = [T("sub", None, [name.args[0], name.args[1]]), name.args[2]]
            looks = [a_ for a_ in alts if a_.op == "sub" and a_.args[0].op == "dict" and a_.args[1].key() == el.key()]
            customs = [a_ for a_ in alts if a_.op in ("fstr", "joined", "binop", "call", "mcall") and T.find(a_, lambda y: y.key() == el.key()) is not None and
                       T.find(a_, lambda y: y.op == "const" and isinstance(y.name, str) and "custom" in y.name) is not None]
            named = bool(looks) and bool(customs)
        ok = same_types and pos0 and named
        why = f"selection on the same type array: {same_types}; positions of the matches: {pos0}; name from the lookup / custom<k>: {named}"
    col.add(R, fi, "type groups partition the branches by SWC type (types > 5 become custom<k>)", "DISCHARGED" if ok else ("VIOLATED" if gs else "UNDECIDED"),
            "cell.branch(where(types == t)[0]).add_to_group(name(t)) for t in unique(types)" if ok else f"group assignment altered: {why}",
            node=gs[0].node if gs else fi.node)


def _reachable(repo):
    """module-level functions of the package reachable from read_swc through resolved calls"""
    start = repo.func(SW, "read_swc")
    seen, todo = {}, [start]
    while todo:
        fi = todo.pop()
        if fi.qual in seen or not fi.file.startswith("jaxley/"):
            continue
        seen[fi.qual] = fi
        mi = repo.mods[fi.file]
        for c in ast.walk(fi.node):
            if isinstance(c, ast.Call) and isinstance(c.func, ast.Name):
                r = repo.resolve_name(mi, c.func.id)
                if r is not None and hasattr(r, "node") and isinstance(r.node, ast.FunctionDef) and getattr(r, "cls", None) is None:
                    todo.append(r)
    if len(seen) < 6:
        raise AnalysisError(f"only {len(seen)} functions reachable from read_swc")
    return seen


def _fresh(repo, col, R):
    """read_swc yields the morphology of the FILE: whatever it calls between opening the file and building the cell is recomputed on
    every call.  A memoised step (functools.lru_cache / cache on the reader or a wrapper, a module-level dictionary of parsed files) is
    keyed by the file NAME (and options); after the file is rewritten -- or another file is written under the same name, as every
    morphology-editing script does -- the stale tree is returned."""
    CACHES = ("lru_cache", "cache", "cached", "memoize", "memoized")
    seen = _reachable(repo)
    for q, fi in sorted(seen.items()):
        bad = next((d for d in fi.node.decorator_list if unparse(d).split("(")[0].split(".")[-1] in CACHES), None)
        col.check(bad is None, R, fi, f"{q} is recomputed on every import", "not memoised",
                  f"`@{unparse(bad) if bad else ''}` keeps the result per file NAME: a second read_swc of a path whose content changed returns the "
                  f"branches, lengths, radii and groups of the old content", node=bad or fi.node)
        # a module-level dictionary used as a cache: written under a key and read back in the same function
        mi = repo.mods[fi.file]
        glob = {t.id for st in mi.tree.body if isinstance(st, (ast.Assign, ast.AnnAssign)) for t in (st.targets if isinstance(st, ast.Assign) else [st.target])
                if isinstance(t, ast.Name) and isinstance(st.value, (ast.Dict, ast.Call)) and (isinstance(st.value, ast.Dict) or unparse(st.value.func) in ("dict", "OrderedDict", "collections.OrderedDict"))}
        wr = [n for n in ast.walk(fi.node) if isinstance(n, ast.Assign) and any(isinstance(t, ast.Subscript) and isinstance(t.value, ast.Name) and t.value.id in glob for t in n.targets)]
        col.check(not wr, R, fi, f"{q} keeps no parsed file in a module-level table", "",
                  f"`{unparse(wr[0])[:70] if wr else ''}` stores a result in a module-level dictionary", node=wr[0] if wr else fi.node)


def _columns(repo, col, R):
    """The SWC format fixes the columns: id, type, x, y, z, radius, parent (0..6).  swc_to_jaxley hands each helper the columns it
    works on -- types = column 1, traced radii = column 5, (type, x, y, z, r) = columns 1..5 for the path lengths, (x, y, z, r) =
    columns 2..5 of the branch's own points (id - 1) for the coordinates -- and the branches it got from the splitter, in the roles of
    the callees' parameters."""
    fi = repo.func(SW, "swc_to_jaxley")
    ex = idx.expander(repo, fi)

    def col_of(t):
        """(rows, columns) description of content[rows, cols]: columns as int or (lo, hi)"""
        if not (t.op == "sub" and t.args[1].op == "tuple" and len(t.args[1].args) == 2 and T.find(t.args[0], lambda x: x.op == "mcall" and x.name == "loadtxt") is not None):
            return None
        r, c = t.args[1].args
        cv = lambda x: x.name if x.op == "const" else (-x.args[0].name if (x.op == "unary" and x.name == "USub" and x.args[0].op == "const") else "?")
        cols = c.name if c.op == "const" else ((cv(c.args[0]), cv(c.args[1])) if c.op == "slice" else "?")
        return r, cols
    want = {"_compute_pathlengths": {1: (1, 6)}, "_radius_generating_fns": {1: 5}}
    n = 0
    for c in ex.calls:
        if isinstance(c.func, ast.Name) and c.func.id in want:
            t = ex.term(c)
            cal = repo.func(CU, c.func.id)
            # argument 0: the branches returned by the splitter
            a0 = t.args[0] if t.args else None
            from_split = a0 is not None and T.find(a0, lambda x: x.op == "call" and x.name == "_split_into_branches_and_sort") is not None and \
                T.find(a0, lambda x: x.op == "item" and x.name == 0) is not None
            n += 1
            col.check(from_split, R, fi, f"{c.func.id} receives the branches of the splitter as `{cal.params[0]}`", "sorted_branches",
                      f"argument `{cal.params[0]}` is {a0.short(70) if a0 is not None else None}", node=c)
            for pos, cols in want[c.func.id].items():
                a = t.args[pos] if len(t.args) > pos else None
                d = col_of(a) if a is not None else None
                n += 1
                col.check(d is not None and d[1] == cols and d[0].op == "slice", R, fi, f"{c.func.id} receives column(s) {cols} of the file as `{cal.params[pos]}`",
                          f"content[:, {cols}]", f"argument `{cal.params[pos]}` is {a.short(70) if a is not None else None}: the SWC columns are id, type, x, y, z, radius, parent",
                          node=c)
    # the type column and the single-point-soma test
    sp = next((s_ for s_ in ast.walk(fi.node) if isinstance(s_, ast.Assign) and isinstance(s_.value, ast.BoolOp)), None)
    spt = ex.term(sp.value) if sp is not None else None
    # (located by what it is: the conjunction that is handed on as `is_single_point_soma`)
    for c in ex.calls:
        if isinstance(c.func, ast.Name) and c.func.id == "_split_into_branches_and_sort":
            tt = ex.term(c)
            cal = repo.func(CU, c.func.id)
            i_ = cal.params.index("is_single_point_soma") if "is_single_point_soma" in cal.params else None
            spt = tt.kw.get("is_single_point_soma") or (tt.args[i_] if i_ is not None and len(tt.args) > i_ else spt)
    ok = False
    if spt is not None and spt.op == "bool" and spt.name == "And" and len(spt.args) == 2:
        def side(q, k, op):
            # bool(...) around a comparison and `not (a == b)` for `a != b` are the same test
            flip = {"==": "!=", "!=": "=="}
            neg_ = False
            while True:
                if q.op == "call" and q.name in ("bool",) and len(q.args) == 1:
                    q = q.args[0]
                elif q.op == "not" or (q.op == "unary" and q.name == "Not"):
                    neg_, q = not neg_, q.args[0]
                else:
                    break
            if not (q.op == "cmp" and q.name in flip and len(q.args) == 2):
                return False
            if (flip[q.name] if neg_ else q.name) != op:
                return False
            a, b = q.args
            if b.op != "const":
                a, b = b, a
            d = col_of(a.args[0]) if (a.op == "sub" and a.args[1].op == "const" and a.args[1].name == k) else None
            return b.op == "const" and b.name == 1 and d is not None and d[1] == 1
        ok = (side(spt.args[0], 0, "==") and side(spt.args[1], 1, "!=")) or (side(spt.args[1], 0, "==") and side(spt.args[0], 1, "!="))
    n += 1
    col.check(ok, R, fi, "a soma is a single traced point iff the first point has type 1 and the second has not", "types[0] == 1 and types[1] != 1 with types = content[:, 1]",
              f"the test is {spt.short(100) if spt is not None else None}", node=sp or fi.node)
    # coordinates of a branch: columns 2..5 of its own points
    okc = False
    det = None
    # (appended in a loop or built by a comprehension: the table read with a row selection derived from the branches)
    cands = {}
    for t_ in [s_.value for s_ in ex.stores if s_.value is not None] + list(ex.returns):
        for x in t_.walk():
            d_ = col_of(x)
            if d_ is not None and d_[0].op != "slice" and not (d_[0].op == "const"):
                cands[x.key()] = x
    for v in cands.values():
        d = col_of(v)
        if d is not None:
            det = v.short(80)
            rows = d[0]
            minus1 = T.find(rows, lambda x: x.op == "binop" and x.name == "-" and x.args[1].op == "const" and x.args[1].name == 1) is not None
            okc = d[1] == (2, 6) and minus1
    n += 1
    col.check(okc, R, fi, "the coordinates of a branch are columns 2..5 (x, y, z, r) of its own points (id - 1)", "content[branch - 1, 2:6]",
              f"coordinates are {det}", node=fi.node)
    if n < 6:
        raise AnalysisError(f"only {n} column obligations raised for swc_to_jaxley")


def _ids_to_rows(repo, col, R):
    """Branches are lists of SWC point ids (the file counts from 1); the per-point tables (coordinates, radii) are numpy arrays
    (counted from 0): a table is always read at `id - 1`."""
    n = 0
    for fname, tables in (("_compute_pathlengths", ("coords",)), ("_radius_generating_fns", ("radiuses",))):
        fi = repo.func(CU, fname)
        ex = idx.expander(repo, fi)
        terms = [s_.value for s_ in ex.stores] + list(ex.returns) + [g for s_ in ex.stores for g in s_.guards] + [ex.term(c) for c in ex.calls]
        seen = {}
        for t in terms:
            for x in t.walk():
                if x.op == "sub" and x.args[0].op == "param" and x.args[0].name in tables and x.args[1].op not in ("const", "slice", "tuple"):
                    seen[x.key()] = x
        for x in seen.values():
            ix = x.args[1]
            from_ids = T.find(ix, lambda y: y.op == "elem" and T.find(y, lambda z: z.op == "param" and z.name == fi.params[0]) is not None) is not None
            if not from_ids:
                continue
            n += 1
            ok = ix.op == "binop" and ix.name == "-" and ix.args[1].op == "const" and ix.args[1].name == 1
            col.check(ok, R, fi, f"{fname}: the point table `{x.args[0].name}` is read at id - 1", "table[np.asarray(branch) - 1]",
                      f"`{x.short(70)}`: SWC ids count from 1, the table from 0 -- every point is taken from the row of its successor", node=x.node or fi.node)
    if n < 2:
        raise AnalysisError(f"only {n} reads of the point tables by SWC id found")


def _switches(repo, col, R):
    """`read_swc(fname, ncomp)` without further arguments reproduces the traced morphology: one branch per unbranched section,
    unclipped radii.  The conventions that DEVIATE from the trace on request -- splitting at `max_branch_len`, clipping at `min_radius`
    -- are switches: parameters that the reader tests against None.  Every such parameter is off (None) by default, in read_swc and
    in every function it is handed down to."""
    n = 0
    reach = list(_reachable(repo).values())
    for fname_ in ("read_swc", "swc_to_jaxley"):
        fi = repo.func(SW, fname_)
        a = fi.node.args
        pos = a.posonlyargs + a.args
        dflt = dict(zip([x.arg for x in pos[len(pos) - len(a.defaults):]], a.defaults))
        dflt.update({x.arg: d for x, d in zip(a.kwonlyargs, a.kw_defaults) if d is not None})
        for x in pos + a.kwonlyargs:
            # a switch: tested `is None` / `is not None` here or, handed down under the same name, in a callee of the reader
            tested = False
            for g in reach:
                if x.arg not in g.params:
                    continue
                for c in ast.walk(g.node):
                    if isinstance(c, ast.Compare) and isinstance(c.left, ast.Name) and c.left.id == x.arg and len(c.ops) == 1 and \
                            isinstance(c.ops[0], (ast.Is, ast.IsNot)) and isinstance(c.comparators[0], ast.Constant) and c.comparators[0].value is None:
                        tested = True
            if not tested or x.arg in ("ncomp", "nseg", "fname"):
                continue
            n += 1
            d = dflt.get(x.arg)
            off = d is not None and isinstance(d, ast.Constant) and d.value is None
            col.check(off, R, fi, f"{fname_}: the optional convention `{x.arg}` is off by default", f"{x.arg}=None",
                      f"`{x.arg}` defaults to `{unparse(d) if d is not None else 'a required value'}`: an import that does not mention it no longer reproduces the traced "
                      f"sections (e.g. an unbranched axon longer than the default is cut into several branches)", node=d or fi.node)
    if n < 3:
        raise AnalysisError(f"only {n} optional conventions of the SWC reader found")


def _conjuncts(guards):
    """Atomic conditions of a guard stack (conjunction): `and` flattened, loops dropped."""
    out = []
    todo = list(guards)
    while todo:
        g = todo.pop(0)
        if g.op == "loop":
            continue
        if g.op == "bool" and g.name == "And":
            todo = list(g.args) + todo
            continue
        out.append(g)
    return out


def _pathlengths(repo, col):
    R = "R-C16-forms"
    from sa.termalg import term_rat
    from sa.algebra import Rat, Und
    fi = repo.func(CU, "_compute_pathlengths")
    ex = idx.expander(repo, fi)
    vals = []
    for s_ in ex.stores:
        if s_.kind == "mcall" and s_.key.name == "append" and s_.value.op == "mcall" and len(s_.value.args) > 1:
            v = idx.norm(repo, fi, s_.value.args[1])
            stack = [v]
            while stack:
                x = stack.pop()
                if x.op == "ifexp":
                    stack += [x.args[1], x.args[2]]
                else:
                    vals.append((x, s_))
    soma_flag = "is_single_point_soma"
    if not vals:
        # the per-branch computation extracted into a helper: `[helper(coords[rows], flag) for b in branches]` -- the helper is judged, with
        # the caller's flag mapped to the parameter that receives it
        rr = ex.merged_return() if len(ex.returns) != 1 else ex.returns[0]
        hc = T.find(rr, lambda x: x.op == "call" and repo.resolve_name(repo.mods[fi.file], x.name) is not None) if rr is not None else None
        hf = repo.resolve_name(repo.mods[fi.file], hc.name) if hc is not None else None
        from sa.core import FuncInfo as _FI
        if isinstance(hf, _FI) and T.find(rr, lambda x: x.op == "comp") is not None:
            for i_, a_ in enumerate(hc.args):
                if a_.op == "param" and a_.name == "is_single_point_soma" and i_ < len(hf.params):
                    soma_flag = hf.params[i_]
            for k_, a_ in hc.kw.items():
                if a_.op == "param" and a_.name == "is_single_point_soma":
                    soma_flag = k_
            fi = hf
            ex = idx.expander(repo, fi)

            class _S:
                pass
            for r_ in ex.returns:
                v = idx.norm(repo, fi, r_)
                stack = [v]
                while stack:
                    x = stack.pop()
                    if x.op == "ifexp":
                        stack += [x.args[1], x.args[2]]
                    else:
                        s0 = _S()
                        s0.node = r_.node or fi.node
                        vals.append((x, s0))
    if not vals:
        raise AnalysisError("_compute_pathlengths: no appended path lengths found")

    def col_of(t):
        """k if t is X[:, k] / X[0, k]"""
        if t.op == "sub" and t.args[1].op == "tuple" and len(t.args[1].args) == 2 and t.args[1].args[1].op == "const":
            return t.args[1].args[1].name
        return None

    # (a) one-point section: 2 * radius (column 4 of row 0)
    one = None
    for v, s_ in vals:
        lst = T.find(v, lambda x: x.op == "list" and len(x.args) == 1)
        two_r = lst.args[0] if lst is not None else v
        if T.find(v, lambda x: x.op == "mcall" and x.name in ("sqrt", "norm", "hypot")) is None:
            try:
                form = term_rat(two_r, lambda x: Rat.atom(f"col{col_of(x)}") if col_of(x) is not None else None)
            except Und:
                continue
            one = (form, v, s_)
    if one is None:
        col.unk(R, fi, "a one-point section has length 2r", "no `2 * radius` value is appended", node=fi.node)
    else:
        form, v, s_ = one
        col.check(form.eq(Rat.const(2) * Rat.atom("col4")), R, fi, "a one-point section has length 2r (sphere of equal area as a cylinder)",
                  "2 * coords[0, 4]", f"the single-point length is {v.short(80)} = {form}: the convention is 2 * radius (column 4)", node=s_.node)
    # (b) Euclidean distance between consecutive points -- the vectorised spellings first: norm(D[:, 1:4], axis=1), sqrt(sum(D[:, 1:4]**2, axis=1))
    def cols_of_block(t):
        """(diff node, {columns}) if t is D[:, a:b] with D = np.diff(.., axis=0)"""
        if t.op == "sub" and t.args[0].op == "mcall" and t.args[0].name == "diff" and t.args[1].op == "tuple" and len(t.args[1].args) == 2 and \
                t.args[1].args[1].op == "slice":
            lo, hi, st = t.args[1].args[1].args
            if lo.op == "const" and hi.op == "const" and isinstance(lo.name, int) and isinstance(hi.name, int) and (st.op == "const" and st.name in (None, 1)):
                return t.args[0], set(range(lo.name, hi.name))
        return None
    vec = None
    for v, s_ in vals:
        nm = T.find(v, lambda x: x.op == "mcall" and x.name == "norm" and x.kw.get("axis") is not None and x.kw["axis"].op == "const" and x.kw["axis"].name in (1, -1))
        if nm is not None:
            blk = next((cols_of_block(a_) for a_ in nm.args if cols_of_block(a_) is not None), None)
            if blk is not None and (nm.kw.get("ord") is None or nm.kw["ord"].name == 2):
                vec = (blk, s_)
        sq_ = T.find(v, lambda x: x.op == "mcall" and x.name == "sqrt")
        if sq_ is not None:
            sm = T.find(sq_, lambda x: x.op == "mcall" and x.name == "sum" and x.kw.get("axis") is not None and x.kw["axis"].op == "const" and x.kw["axis"].name in (1, -1))
            if sm is not None:
                pw_ = T.find(sm, lambda x: (x.op == "binop" and x.name == "**" and x.args[1].op == "const" and x.args[1].name == 2) or
                             (x.op == "mcall" and x.name == "square"))
                inner = (pw_.args[0] if pw_.op == "binop" else next((a_ for a_ in pw_.args if a_.op != "free"), None)) if pw_ is not None else None
                blk = cols_of_block(inner) if inner is not None else None
                if blk is not None:
                    vec = (blk, s_)
    if vec is not None:
        (dn, cs), s_ = vec
        col.check(cs == {1, 2, 3}, R, fi, "segment length is the Euclidean distance of consecutive traced points (x, y, z columns)",
                  "Euclidean norm over columns 1, 2, 3", f"the norm is taken over columns {sorted(cs)} (columns are type, x, y, z, radius)", node=s_.node)
        okd = dn.kw.get("axis") is not None and dn.kw["axis"].op == "const" and dn.kw["axis"].name == 0 and len(dn.args) < 3
        col.check(okd, R, fi, "differences are taken between consecutive points of the branch", "np.diff(coords_in_branch, axis=0)",
                  "coordinate differences are not first differences along the point axis", node=s_.node)
    euc = None
    for v, s_ in (vals if vec is None else []):
        sq = T.find(v, lambda x: x.op == "mcall" and x.name == "sqrt")
        if sq is not None:
            euc = (sq, s_)
    if vec is not None:
        pass
    elif euc is None:
        col.bad(R, fi, "segment length is the Euclidean distance of consecutive traced points (x, y, z columns)",
                "no sqrt(...) of coordinate differences is appended", node=fi.node)
    else:
        sq, s_ = euc
        diffs = []

        def leaf(x):
            k = col_of(x)
            if k is not None and x.args[0].op == "mcall" and x.args[0].name == "diff":
                diffs.append(x.args[0])
                return Rat.atom(f"d{k}")
            # dx, dy, dz = np.diff(X[:, a:b], axis=0).T  ->  component k is column a + k
            if x.op == "item" and isinstance(x.name, int) and x.args[0].op == "attr" and x.args[0].name == "T" and \
                    x.args[0].args[0].op == "mcall" and x.args[0].args[0].name == "diff":
                d = x.args[0].args[0]
                src = d.args[1] if len(d.args) > 1 else None
                if src is not None and src.op == "sub" and src.args[1].op == "tuple" and len(src.args[1].args) == 2 and \
                        src.args[1].args[1].op == "slice" and src.args[1].args[1].args[0].op == "const" and \
                        isinstance(src.args[1].args[1].args[0].name, int):
                    diffs.append(d)
                    return Rat.atom(f"d{src.args[1].args[1].args[0].name + x.name}")
            return None
        try:
            form = term_rat(sq.args[1], leaf)
            want = Rat.atom("d1").powi(2) + Rat.atom("d2").powi(2) + Rat.atom("d3").powi(2)
            col.check(form.eq(want), R, fi, "segment length is the Euclidean distance of consecutive traced points (x, y, z columns)",
                      "sqrt(dx^2 + dy^2 + dz^2) over columns 1, 2, 3", f"distance is sqrt({form}) (columns are type, x, y, z, radius)", node=s_.node)
        except Und as e:
            col.unk(R, fi, "segment length is the Euclidean distance", str(e), node=s_.node)
        ok = bool(diffs) and all(d.kw.get("axis") is not None and d.kw["axis"].op == "const" and d.kw["axis"].name == 0 and
                                 (len(d.args) < 3) for d in diffs)
        col.check(ok, R, fi, "differences are taken between consecutive points of the branch", "np.diff(coords_in_branch, axis=0)",
                  "coordinate differences are not first differences along the point axis", node=s_.node)
    # (c) soma-to-neurite gap: the first point is replaced iff the branch starts at a soma point (type 1), continues with a
    #     non-soma point, and the soma is a single point
    gap = [s_ for s_ in ex.stores if s_.kind == "sub" and s_.key.op == "const" and s_.key.name == 0 and
           s_.value.op == "sub" and s_.value.args[1].op == "const" and s_.value.args[1].name == 1]
    if not gap:
        col.bad(R, fi, "the distance from a single-point soma to the first neurite point is ignored",
                "the statement that replaces the first point of such a branch vanished", node=fi.node)
        return
    atoms = set()
    unknown = []
    for g in _conjuncts(gap[0].guards):
        k = None
        g0 = g
        while g0.op == "not" or (g0.op == "unary" and g0.name == "Not"):
            g0 = g0.args[0]
        if g0.op == "cmp" and any((a_.op in ("call", "mcall") and a_.name == "len") for a_ in g0.args):
            continue   # the one-point case distinction (also as the negation of an early `continue`)
        if g.op == "param" and g.name == soma_flag:
            k = "single_point_soma"
        elif g.op == "cmp" and len(g.args) == 2:
            def side(t):
                t0 = t
                while t0.op == "call" and t0.name == "int" and t0.args:
                    t0 = t0.args[0]
                if t0.op == "const":
                    return repr(t0.name)
                if t0.op == "sub" and t0.args[1].op == "const" and isinstance(t0.args[1].name, int) and col_of(t0.args[0]) == 0:
                    return f"type[{t0.args[1].name}]"
                # `first, second = X[:2, 0]`  /  X[:2, 0][k]  /  X[k, 0]
                if (t0.op == "item" or (t0.op == "sub" and t0.args[1].op == "const")) and isinstance(t0.name if t0.op == "item" else t0.args[1].name, int):
                    k_ = t0.name if t0.op == "item" else t0.args[1].name
                    inner = t0.args[0]
                    if inner.op == "sub" and inner.args[1].op == "tuple" and len(inner.args[1].args) == 2 and col_of(inner) == 0 and \
                            inner.args[1].args[0].op == "slice":
                        lo, hi, st = inner.args[1].args[0].args
                        if (lo.op == "const" and lo.name in (None, 0)) and st.op == "const" and st.name is None and k_ >= 0 and \
                                (hi.op == "const" and (hi.name is None or (isinstance(hi.name, int) and k_ < hi.name))):
                            return f"type[{k_}]"
                if t0.op == "sub" and t0.args[1].op == "tuple" and len(t0.args[1].args) == 2 and col_of(t0) == 0 and \
                        t0.args[1].args[0].op == "const" and isinstance(t0.args[1].args[0].name, int):
                    return f"type[{t0.args[1].args[0].name}]"
                if t0.op == "mcall" and t0.name == "len" or (t0.op == "call" and t0.name == "len"):
                    return "len"
                return None
            l, r_ = side(g.args[0]), side(g.args[1])
            if "len" in (l, r_):
                continue  # the one-point case distinction
            if l is not None and r_ is not None:
                k = f"{l} {g.name} {r_}" if l <= r_ or g.name not in ("==", "!=") else f"{r_} {g.name} {l}"
        if k is None:
            unknown.append(g.short(60))
        else:
            atoms.add(k)
    want = {"single_point_soma", "1 == type[0]", "1 != type[1]"}
    if unknown:
        col.unk(R, fi, "soma-gap condition", f"unrecognised conjuncts {unknown}", node=gap[0].node)
    else:
        col.check(atoms == want, R, fi, "the first point is replaced iff type[0] == 1, type[1] != 1 and the soma is a single point",
                  str(sorted(atoms)),
                  f"the soma-gap condition is {sorted(atoms)}, expected {sorted(want)}: sections that leave a non-soma neurite "
                  f"(or a multi-point soma) lose their first traced step, so branch lengths come out too short", node=gap[0].node)


def _split(repo, col):
    R = "R-C16-split"
    from sa.termalg import term_rat
    from sa.algebra import Rat, Und
    # ---- (1) _split_branch_equally: consecutive parts share exactly one traced point and together cover the branch
    fi = repo.func(CU, "_split_branch_equally")
    ex = idx.expander(repo, fi)
    r = ex.returns[-1] if ex.returns else None
    parts = {}

    def leaf(x):
        if (x.op == "binop" and x.name == "//") or (x.op in ("call", "mcall") and x.name == "len"):
            if x.op == "binop":
                return Rat.atom("n")
        if x.op == "param" and x.name == fi.params[1]:
            return Rat.atom("k")
        if x.op == "elem":
            return Rat.atom("i")
        return None

    def bounds(sl):
        lo, hi, _ = sl.args
        f = lambda b: None if (b.op == "const" and b.name is None) else term_rat(b, leaf)
        return f(lo), f(hi)
    try:
        rng = None
        # every slice of the section that ends up in the result, wherever it is built (appends, comprehension, `+`)
        terms = list(ex.returns) + [s_.value for s_ in ex.stores if s_.value is not None]
        seen = set()
        for t_ in terms:
            for x in t_.walk():
                if x.op == "sub" and x.args[0].op == "param" and x.args[0].name == fi.params[0] and x.args[1].op == "slice" and x.key() not in seen:
                    seen.add(x.key())
                    lo, hi = bounds(x.args[1])
                    kind = "first" if lo is None else ("last" if hi is None else "middle")
                    if kind in parts and (repr(parts[kind]) != repr((lo, hi))):
                        parts["conflict"] = (lo, hi)
                    parts[kind] = (lo, hi)
                    if kind == "middle":
                        el = T.find(x.args[1], lambda y: y.op == "elem")
                        rg = el.args[0] if el is not None else None
                        if rg is not None and rg.op == "call" and rg.name == "range" and len(rg.args) == 2:
                            rng = (term_rat(rg.args[0], leaf), term_rat(rg.args[1], leaf))
        n, k, i = Rat.atom("n"), Rat.atom("k"), Rat.atom("i")
        one = Rat.const(1)
        if parts and "last" not in parts and "conflict" not in parts:
            col.bad(R, fi, "_split_branch_equally: the last part runs to the end of the section",
                    f"every part is a slice with a fixed upper bound ({sorted(parts)}; none is open-ended): when the number of traced points is "
                    f"not divisible by the number of parts, the trailing points of the section are dropped (total length shrinks, tip "
                    f"coordinates vanish)", node=fi.node)
        elif set(parts) != {"first", "middle", "last"} or rng is None:
            col.unk(R, fi, "_split_branch_equally: first / middle / last parts", f"parts recognised: {sorted(parts)}", node=fi.node)
        else:
            ok = parts["first"][0] is None and parts["first"][1].eq(n) and parts["middle"][0].eq(i * n - one) and \
                parts["middle"][1].eq((i + one) * n) and parts["last"][0].eq((k - one) * n - one) and parts["last"][1] is None and \
                rng[0].eq(one) and rng[1].eq(k - one)
            col.check(ok, R, fi, "parts are [0,n), [i*n-1,(i+1)*n) for i = 1..k-2, [(k-1)*n-1, end): neighbours share exactly one point",
                      "each part starts at the last point of the previous one; the union is the whole section",
                      f"parts are first {parts['first']}, middle {parts['middle']} for i in range{rng}, last {parts['last']}: consecutive "
                      f"sub-branches must overlap in exactly one traced point (their connection) and cover every point", node=fi.node)
    except (Und, AttributeError, IndexError) as e:
        col.unk(R, fi, "_split_branch_equally", f"outside the analysable fragment: {e}", node=fi.node)
    # ---- (2) _split_long_branches: the loop re-measures the longest sub-branch
    fi = repo.func(CU, "_split_long_branches")
    ex = idx.expander(repo, fi)
    wl = next((n for n in ast.walk(fi.node) if isinstance(n, ast.While)), None)
    if wl is None or not isinstance(wl.test, ast.Compare) or len(wl.test.comparators) != 1:
        col.unk(R, fi, "_split_long_branches: splitting loop", "while loop not found", node=fi.node)
    else:
        names = [x.id for x in (wl.test.left, wl.test.comparators[0]) if isinstance(x, ast.Name)]
        lim = [x for x in names if x == "max_branch_len"]
        var = [x for x in names if x != "max_branch_len"]
        longer = (isinstance(wl.test.ops[0], (ast.Gt,)) and isinstance(wl.test.left, ast.Name) and wl.test.left.id != "max_branch_len") or \
                 (isinstance(wl.test.ops[0], (ast.Lt,)) and isinstance(wl.test.left, ast.Name) and wl.test.left.id == "max_branch_len")
        col.check(bool(lim) and len(var) == 1 and longer, R, fi, "splitting continues while the longest part exceeds max_branch_len",
                  unparse(wl.test), f"loop condition is `{unparse(wl.test)}`", node=wl)
        if len(var) == 1:
            asg = [n for st in wl.body for n in ast.walk(st) if isinstance(n, ast.Assign) and any(isinstance(t, ast.Name) and t.id == var[0] for t in n.targets)]
            if not asg:
                col.bad(R, fi, "the length tested by the loop is updated inside the loop", f"`{var[0]}` is never reassigned in the loop", node=wl)
            else:
                t = ex.term(asg[-1].value)
                meas = T.find(t, lambda x: x.op == "call" and x.name == "_compute_pathlengths")
                from_split = meas is not None and T.find(meas, lambda x: x.op == "call" and x.name == "_split_branch_equally") is not None
                is_max = T.find(t, lambda x: x.op == "call" and x.name == "max") is not None or \
                    T.find(t, lambda x: x.op == "mcall" and x.name in ("max", "amax")) is not None
                col.check(from_split and is_max, R, fi, "the loop tests the MEASURED length of the longest sub-branch",
                          "max over the path lengths of the parts returned by _split_branch_equally",
                          f"`{var[0]}` becomes {t.short(100)}: parts are split by number of points, not by length, so their lengths must be "
                          f"measured (max of _compute_pathlengths of the parts); an estimate such as total/num stops too early when "
                          f"points are unevenly spaced and leaves branches longer than max_branch_len", node=asg[-1])
        incs = [n for st in wl.body for n in ast.walk(st) if isinstance(n, ast.AugAssign) and isinstance(n.op, ast.Add)]
        col.check(any(isinstance(n.value, ast.Constant) and n.value.value == 1 for n in incs), R, fi, "the number of parts grows by one per iteration", "",
                  "the number of sub-branches is not incremented by one", node=wl)
    # (what the list of types grows by: `types += X`, `types.extend(X)`)
    class _Ext:
        def __init__(self, value, node):
            self.value, self.node = value, node
    ts = [_Ext(s_.value, s_.node) for s_ in ex.stores if s_.kind == "aug" and T.find(s_.value, lambda x: x.op == "item" and x.name == 1) is not None]
    for s_ in ex.stores:
        if s_.kind == "mcall" and s_.key is not None and s_.key.name == "extend" and s_.value is not None and len(s_.value.args) == 2:
            x_ = s_.value.args[1]
            has_type = T.find(x_, lambda x: x.op == "item" and x.name == 1) is not None
            # the list of parts itself (`branches.extend(parts)`) is not the list of types; `[type] * len(parts)` is
            is_parts = x_.op not in ("binop", "list", "tuple") and T.find(x_, lambda x: x.op == "call" and x.name == "_split_branch_equally") is not None
            if has_type and not is_parts:
                ts.append(_Ext(x_, s_.node))
    ok = bool(ts) and ts[0].value.op == "binop" and ts[0].value.name == "*"
    col.check(ok, R, fi, "every part inherits the type of its section (type repeated once per part)", "[type] * num_subbranches",
              f"types are extended by {ts[0].value.short(80) if ts else None}", node=ts[0].node if ts else fi.node)
    # ---- (2b) _split_into_branches: a new branch starts where the row does not continue the previous row (parent != previous
    # index) OR where the TYPE changes -- any type change, not only soma / non-soma
    fi = repo.func(CU, "_split_into_branches")
    ex = idx.expander(repo, fi)
    terms = []
    for s_ in ex.stores:
        terms += [t_ for t_ in (s_.value, s_.key) if t_ is not None] + list(s_.guards)
    terms += list(ex.returns)

    def contentish(x):
        """the rows of the table, possibly copied into a list, shifted by one (`rows[:-1]`, `[None] + rows[:-1]`)"""
        if x.op == "param":
            return x.name == fi.params[0]
        if x.op == "call" and x.name in ("list", "tuple", "iter", "asarray", "array") and x.args:
            return contentish(x.args[0])
        if x.op == "sub" and x.args[1].op in ("slice", "call") and (x.args[1].op == "slice" or x.args[1].name == "slice"):
            return contentish(x.args[0])
        if x.op == "binop" and x.name == "+":
            return any(contentish(a_) for a_ in x.args) and all(contentish(a_) or T.find(a_, lambda y: y.op == "param") is None for a_ in x.args)
        return False

    def is_row(x):
        if x.op == "elem" and x.args:
            return contentish(x.args[0])
        if x.op == "item" and x.args and x.args[0].op == "elem" and x.args[0].args and x.args[0].args[0].op == "call" and x.args[0].args[0].name == "zip":
            za = x.args[0].args[0].args
            return isinstance(x.name, int) and x.name < len(za) and contentish(za[x.name])
        return False

    def column_of(t_):
        """k if t_ is column k of the current row(s): each(content)[k] / content[:, k][...]"""
        if t_.op == "sub" and is_row(t_.args[0]):
            k = t_.args[1]
            return -k.args[0].name if (k.op == "unary" and k.name == "USub" and k.args[0].op == "const") else (k.name if k.op == "const" else None)
        if t_.op == "sub" and t_.args[0].op == "sub":
            return column_of_vec(t_.args[0])
        return column_of_vec(t_)

    def column_of_vec(t_):
        if t_.op == "sub" and t_.args[0].op == "param" and t_.args[0].name == fi.params[0] and t_.args[1].op == "tuple" and len(t_.args[1].args) == 2:
            k = t_.args[1].args[1]
            return -k.args[0].name if (k.op == "unary" and k.name == "USub" and k.args[0].op == "const") else (k.name if k.op == "const" else None)
        return None

    direct, indirect = set(), set()

    def starts(g, neg=False):
        """columns whose CHANGE (value differs from the previous row's) makes the condition true; None if not of that shape.
        `a != b or c != d`, `not (a == b and c == d)`, nested ifs -- all the same condition."""
        while g.op == "not" or (g.op == "unary" and g.name == "Not"):
            neg, g = not neg, g.args[0]
        if g.op == "unary" and g.name == "Invert":
            return starts(g.args[0], not neg)
        if (g.op == "bool" and ((g.name == "Or" and not neg) or (g.name == "And" and neg))) or \
                (g.op == "binop" and ((g.name == "|" and not neg) or (g.name == "&" and neg))) or \
                (g.op == "mcall" and g.args and g.args[0].op == "free" and ((g.name == "logical_or" and not neg) or (g.name == "logical_and" and neg))):
            if g.op == "mcall":
                g = T("bool", "Or", list(g.args[1:]))
            out = set()
            for a_ in g.args:
                r_ = starts(a_, neg)
                if r_ is None:
                    return None
                out |= r_
            return out
        if g.op == "cmp" and len(g.args) == 2 and ((g.name in ("is", "==") and not neg) or (g.name in ("is not", "!=") and neg)) and \
                any(is_row(a_) for a_ in g.args) and any(a_.op == "const" and a_.name is None for a_ in g.args):
            return set()  # `previous row is None`: the first row, which starts a section under every form of the condition
        if g.op == "cmp" and len(g.args) == 2 and ((g.name == "!=" and not neg) or (g.name == "==" and neg)) and \
                not any(a_.op == "const" or (a_.op == "unary" and a_.args[0].op == "const") for a_ in g.args):
            ks = set()
            for side in g.args:
                k = column_of(side)
                if k is not None:
                    ks.add(("d", k))
                elif side.op == "cmp":
                    for y in side.walk():
                        k2 = column_of(y)
                        if k2 is not None:
                            ks.add(("i", k2))
            return ks or None
        return None
    app = [s_ for s_ in ex.stores if s_.kind == "mcall" and s_.key.name == "append" and
           any(starts(g) is not None for g in s_.guards if g.op != "loop")]
    cands = []
    for s_ in app[:1]:
        for g in s_.guards:
            r_ = starts(g) if g.op != "loop" else None
            if r_:
                cands.append(r_)
    if not cands:
        # the vectorised form: a boolean mask `(parents[1:] != inds[:-1]) | (types[1:] != types[:-1])`
        for t_ in terms:
            for x in t_.walk():
                if x.op in ("bool", "binop", "unary", "not", "mcall"):
                    r_ = starts(x)
                    if r_ and len(r_) >= 1 and (x.op != "mcall" or x.name in ("logical_or", "logical_and")):
                        cands.append(r_)
        if not cands:
            for t_ in terms:
                for x in t_.walk():
                    r_ = starts(x) if x.op == "cmp" else None
                    if r_:
                        cands.append(r_)
        if not cands:
            # the complementary mask: `cont[1:] = (parents[1:] == ids[:-1]) & (types[1:] == types[:-1])`, sections start at `~cont`
            for s_ in ex.stores:
                if s_.kind == "sub" and s_.value is not None:
                    r_ = starts(s_.value, True)
                    used_negated = any(T.find(t_, lambda x: (x.op == "unary" and x.name == "Invert" and x.args[0].key() == s_.base.key()) or
                                              (x.op in ("call", "mcall") and x.name == "logical_not" and any(a_.key() == s_.base.key() for a_ in x.args))) is not None
                                       for t_ in terms)
                    if r_ and used_negated:
                        cands.append(r_)
        cands = [max(cands, key=len)] if cands else []
    for r_ in cands:
        for kind_, k in r_:
            (direct if kind_ == "d" else indirect).add(k)
    if not direct and not indirect:
        col.unk(R, fi, "_split_into_branches: a branch starts at a discontinuity of the trace or at a type change", "comparisons not recognised", node=fi.node)
    else:
        ok = {1, -1} <= direct
        col.check(ok, R, fi, "_split_into_branches: a branch starts where parent != previous row OR type != previous type",
                  f"direct comparisons of columns {sorted(direct)}",
                  f"the branch-start condition compares columns {sorted(direct)} directly"
                  + (f" and columns {sorted(indirect)} only through a derived flag (e.g. `type == 1`)" if indirect else "")
                  + ": every change of the SWC type (column 1) must start a new section, e.g. an axon continuing a basal dendrite", node=fi.node)
    # ---- (3) _build_parents: parent = the branch whose LAST point is this branch's FIRST point
    fi = repo.func(CU, "_build_parents")
    ex = idx.expander(repo, fi)
    vals = []
    for s_ in ex.stores:
        if s_.kind == "sub":
            vals.append((s_.value, s_))
        elif s_.kind == "mcall" and s_.key.name == "append" and s_.value.op == "mcall" and len(s_.value.args) > 1:
            vals.append((s_.value.args[1], s_))
    is_root = lambda v: v.op == "unary" and v.name == "USub" and v.args[0].op == "const" and v.args[0].name == 1
    st_par = [(v, s_) for v, s_ in vals if not is_root(v) and not (v.op == "const" and v.name is None) and
              T.find(v, lambda x: x.op in ("call", "mcall") and x.name in ("where", "nonzero", "flatnonzero", "index", "argmax")) is not None]
    st_root = [(v, s_) for v, s_ in vals if is_root(v)]
    ok = False
    detail = None
    if st_par:
        v = st_par[0][0]
        cmp_ = T.find(v, lambda x: x.op == "cmp" and x.name == "==")
        if cmp_ is not None:
            def endpoint(t):
                neg = T.find(t, lambda x: x.op == "sub" and x.args[1].op == "unary" and x.args[1].name == "USub" and x.args[1].args[0].name == 1)
                zero = T.find(t, lambda x: x.op == "sub" and x.args[1].op == "const" and x.args[1].name == 0 and
                              T.find(x.args[0], lambda y: y.op == "elem") is not None)
                return "last" if neg is not None else ("first" if zero is not None else None)
            ends = {endpoint(cmp_.args[0]), endpoint(cmp_.args[1])}
            ok = ends == {"last", "first"}
            detail = f"compares {cmp_.args[0].short(50)} with {cmp_.args[1].short(50)}"
    if not st_par or detail is None:
        col.unk(R, fi, "parent of a branch = the branch whose last traced point is this branch's first point", "parent lookup not recognised", node=fi.node)
    else:
        col.check(ok, R, fi, "parent of a branch = the branch whose last traced point is this branch's first point",
                  "all_last_inds == branch[0]", f"parent lookup {detail}", node=st_par[0][1].node)
    col.check(bool(st_root), R, fi, "a branch without such a predecessor is a root (-1)", "parent -1", "no branch is ever marked as root (-1)",
              node=fi.node)
    # a branch is never its own parent: the match is compared with the branch's own position (the single-point soma [1]
    # starts and ends at the same traced point and matches itself)
    if st_par:
        v, s_ = st_par[0]
        is_match = lambda t: T.find(t, lambda x: x.op in ("call", "mcall") and x.name in ("where", "nonzero", "flatnonzero", "argwhere")) is not None
        is_own = lambda t: T.find(t, is_match) is None and (
            (t.op == "item" and t.name == 0 and t.args[0].op == "elem" and t.args[0].args[0].op == "call" and t.args[0].args[0].name == "enumerate")
            or (t.op == "elem" and t.args[0].op == "call" and t.args[0].name == "range"))
        found = []

        def holds(t, neg):
            """comparisons that necessarily hold under the guard t (negated if neg): And / not-Or are conjunctions"""
            if t.op == "not" or (t.op == "unary" and t.name == "Not"):
                return holds(t.args[0], not neg)
            if t.op == "bool":
                if (t.name == "And") != neg:
                    return [h for a in t.args for h in holds(a, neg)]
                return []
            if t.op == "cmp" and len(t.args) == 2:
                return [(t, neg)]
            return []

        for g in s_.guards:
            if g.op == "loop":
                continue
            for q, neg in holds(g, False):
                a, b = q.args
                if (is_match(a) and is_own(b)) or (is_match(b) and is_own(a)):
                    op = q.name
                    if neg:
                        op = {"==": "!=", "!=": "==", "<": ">=", "<=": ">", ">": "<=", ">=": "<"}.get(op, op)
                    if is_own(a):
                        op = {"<": ">", ">": "<", "<=": ">=", ">=": "<="}.get(op, op)
                    found.append(op)
        earlier_only = T.find(v, lambda x: x.op == "slice" and T.find(x, is_own) is not None) is not None
        if found:
            col.check(all(o in ("!=", "<") for o in found), R, fi, "a branch is never its own parent (the matching branch is not the branch itself)",
                      f"match {found[0]} own position",
                      f"the parent is accepted when `match {found[0]} own position`: the single-point soma [1] starts and ends at the same traced point, "
                      f"matches itself and becomes its own parent, so the cell has no root", node=s_.node)
        else:
            col.add(R, fi, "a branch is never its own parent (the matching branch is not the branch itself)",
                    "DISCHARGED" if earlier_only else "VIOLATED",
                    "only earlier branches are searched" if earlier_only else
                    "the parent match is never compared with the branch's own position: the single-point soma [1] matches itself and becomes its own parent",
                    node=s_.node)
    # ---- (4) sorting: sections and their types are permuted with the same stable order
    fi = repo.func(CU, "_split_into_branches_and_sort")
    ex = idx.expander(repo, fi)
    r = ex.returns[-1] if ex.returns else None
    if r is None or r.op != "tuple" or len(r.args) != 2:
        col.unk(R, fi, "_split_into_branches_and_sort returns (branches, types)", "unexpected return", node=fi.node)
    else:
        perms = []
        for a in r.args:
            a1 = a.args[1] if a.op == "ifexp" else a
            srt = T.find(a1, lambda x: x.op == "mcall" and x.name == "argsort")
            perms.append(srt.key() if srt is not None else None)
        col.check(perms[0] is not None and perms[0] == perms[1], R, fi, "branches and types are reordered by ONE permutation", "same argsort",
                  "sections and their types are sorted with different permutations: branches get another section's type", node=fi.node)
        srt = T.find(r.args[0], lambda x: x.op == "mcall" and x.name == "argsort")
        stable = srt is not None and srt.kw.get("kind") is not None and srt.kw["kind"].op == "const" and srt.kw["kind"].name in ("mergesort", "stable")
        col.check(stable, R, fi, "the sort is stable (sections starting at the same point keep file order)", "kind='mergesort'",
                  "argsort is not stable: sibling sections that start at the same branch point may be reordered relative to their types/parents", node=fi.node)
        key_first = srt is not None and T.find(srt, lambda x: x.op == "sub" and x.args[1].op == "const" and x.args[1].name == 0) is not None
        col.check(key_first, R, fi, "sort key = first traced point of each section", "b[0]", "sort key altered", node=fi.node)
