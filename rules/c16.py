"""C16 -- SWC import preserves the traced morphology (two narrow clauses)."""
from __future__ import annotations

import ast

from sa.algebra import Und, Rat, PW, SymArr, rat_of, parse_ref, ONE
from sa.core import AnalysisError, unparse, walk_no_nested
from sa.terms import Expander, T
from . import idx, kin

LEVEL = "other"
CU = "jaxley/utils/cell_utils.py"
SW = "jaxley/io/swc.py"
EXPLANATION = (
    "Mostly NOT decidable statically (graph algorithms over file contents: section splitting, parent "
    "lookup, path lengths, max_branch_len). Claimed narrowly: R-C16-stale -- in the SWC helper loops a "
    "read of a variable that the loop body itself assigns must not be *must-stale*: on every feasible "
    "path through the iteration that reaches the read (paths correlated on syntactically identical "
    "tests) no assignment of the same iteration precedes it and no assignment before the loop dominates "
    "the loop entry, so the value can only come from a previous iteration or from a different loop. "
    "R-C16-forms -- _radius is linear interpolation between the bracketing traced radii (exact form); "
    "compartment centres are (i+1/2)/ncomp; radii are clipped from below at min_radius; a one-point "
    "section has length 2r; zero path length becomes 1.0; per-compartment length = path length / ncomp; "
    "the SWC type lookup is total on 0..5 and names larger types custom<k>."
)
ASSUMPTIONS = ["numpy digitize/linspace semantics", "connectivity, splitting and soma conventions for arbitrary files are not decided"]


def check(repo, col, tier):
    col.rule("R-C16-stale", "no must-stale read of a loop-assigned variable in the SWC helpers", 3)
    col.rule("R-C16-forms", "interpolation / centre / clipping / length conventions", 8)
    _stale(repo, col)
    _forms(repo, col)


# --------------------------------------------------------------------------------------
# must-stale reads


def _names_stored(node):
    """Names assigned by a statement; comprehension variables are local to the comprehension."""
    out = set()
    todo = [node]
    while todo:
        n = todo.pop()
        if isinstance(n, (ast.ListComp, ast.SetComp, ast.DictComp, ast.GeneratorExp, ast.Lambda, ast.FunctionDef)):
            continue
        if isinstance(n, ast.Name) and isinstance(n.ctx, ast.Store):
            out.add(n.id)
        todo.extend(ast.iter_child_nodes(n))
    return out


def _atoms(test, pos=True):
    if isinstance(test, ast.BoolOp) and isinstance(test.op, ast.And) and pos:
        return [a for v in test.values for a in _atoms(v, True)]
    if isinstance(test, ast.BoolOp) and isinstance(test.op, ast.Or) and not pos:
        return [a for v in test.values for a in _atoms(v, False)]
    if isinstance(test, ast.UnaryOp) and isinstance(test.op, ast.Not):
        return _atoms(test.operand, not pos)
    return [(unparse(test), pos)]


def _paths(stmts, facts, defined, reads, loopvars):
    if not stmts:
        yield facts, defined
        return
    st, rest = stmts[0], stmts[1:]

    def use(expr, defined_now):
        for n in ast.walk(expr):
            if isinstance(n, ast.Name) and isinstance(n.ctx, ast.Load) and n.id in loopvars:
                reads.append((n.id, n, n.id in defined_now))

    if isinstance(st, ast.If):
        use(st.test, defined)
        for branch, pos in ((st.body, True), (st.orelse, False)):
            atoms = _atoms(st.test, pos)
            if any(facts.get(t) is not None and facts[t] != p for t, p in atoms):
                continue
            f2 = dict(facts)
            for t, p in atoms:
                f2[t] = p
            for f3, d3 in _paths(branch, f2, set(defined), reads, loopvars):
                yield from _paths(rest, f3, d3, reads, loopvars)
        return
    if isinstance(st, (ast.For, ast.While)):
        d2 = set(defined) | _names_stored(st)
        yield from _paths(rest, facts, d2, reads, loopvars)
        return
    if isinstance(st, (ast.Assign, ast.AugAssign, ast.AnnAssign)):
        if getattr(st, "value", None) is not None:
            use(st.value, defined)
        if isinstance(st, ast.AugAssign):
            use(st.target, defined)
        d2 = set(defined)
        f2 = dict(facts)
        for x in _names_stored(st):
            d2.add(x)
            f2 = {k: v for k, v in f2.items() if x not in {n.id for n in ast.walk(ast.parse(k, mode="eval")) if isinstance(n, ast.Name)}}
        yield from _paths(rest, f2, d2, reads, loopvars)
        return
    if isinstance(st, (ast.Break, ast.Continue, ast.Return, ast.Raise)):
        for ch in ast.iter_child_nodes(st):
            if isinstance(ch, ast.expr):
                use(ch, defined)
        yield facts, defined
        return
    for ch in ast.iter_child_nodes(st):
        if isinstance(ch, ast.expr):
            use(ch, defined)
    yield from _paths(rest, facts, defined, reads, loopvars)


def _definitely_assigned_before(body, i, params):
    """Names definitely assigned on every path through body[:i] (if/elif/else chains whose last branch raises count)."""
    out = set(params)
    for st in body[:i]:
        if isinstance(st, (ast.Assign, ast.AugAssign, ast.AnnAssign)):
            out |= _names_stored(st)
        elif isinstance(st, ast.If):
            branches = []
            node = st
            while True:
                branches.append(node.body)
                if len(node.orelse) == 1 and isinstance(node.orelse[0], ast.If):
                    node = node.orelse[0]
                    continue
                branches.append(node.orelse)
                break
            sets = []
            for b in branches:
                if b and isinstance(b[-1], ast.Raise):
                    continue
                s = set()
                for x in b:
                    if isinstance(x, (ast.Assign, ast.AugAssign, ast.AnnAssign)):
                        s |= _names_stored(x)
                sets.append(s)
            if sets and branches[-1]:
                out |= set.intersection(*sets)
        elif isinstance(st, (ast.With,)):
            out |= _definitely_assigned_before(st.body, len(st.body), [])
    return out


def _stale(repo, col):
    R = "R-C16-stale"
    n_loops = 0
    targets = []
    for f in (CU, SW):
        mi = repo.mod(f)
        targets += list(mi.functions.values())
    for fi in targets:
        body = fi.node.body
        for i, st in enumerate(body):
            if not isinstance(st, (ast.For, ast.While)):
                continue
            n_loops += 1
            assigned = set()
            for x in st.body:
                assigned |= _names_stored(x)
            target = _names_stored(st.target) if isinstance(st, ast.For) else set()
            init = _definitely_assigned_before(body, i, fi.params)
            loopvars = assigned - target - init
            if not loopvars:
                col.ok(R, fi, f"loop at `{unparse(st).splitlines()[0][:60]}`", "every loop-assigned variable is initialised before the loop", node=st)
                continue
            reads = []
            list(_paths(st.body, {}, set(), reads, loopvars))
            by = {}
            for name, node, ok in reads:
                by.setdefault((name, node.lineno, node.col_offset), [node, []])[1].append(ok)
            stale = [(k, v) for k, v in by.items() if not any(v[1])]
            if not stale:
                col.ok(R, fi, f"loop at `{unparse(st).splitlines()[0][:60]}`",
                       f"loop-assigned {sorted(loopvars)} are assigned before use on some path of the iteration", node=st)
            for (name, ln, _c), (node, oks) in stale:
                # where could the value come from?
                prev = [j for j, p in enumerate(body[:i]) if isinstance(p, (ast.For, ast.While)) and name in _names_stored(p)]
                src = "the last iteration of an earlier loop" if prev else "a previous iteration"
                col.bad(R, fi, f"read of `{name}` in `{unparse(_enclosing_stmt(st, node))[:70]}`",
                        f"`{name}` is read on {len(oks)} path(s) through the loop body on none of which the iteration has assigned "
                        f"it, and nothing assigns it before the loop: its value comes from {src} (e.g. the SWC type of the *last* "
                        f"row of the file is used for the first row)", node=node)
    if n_loops < 8:
        raise AnalysisError(f"only {n_loops} top-level loops found in the SWC helpers")


def _enclosing_stmt(loop, node):
    best = loop
    for st in ast.walk(loop):
        if isinstance(st, ast.stmt) and not isinstance(st, (ast.For, ast.While, ast.If)):
            for n in ast.walk(st):
                if n is node:
                    best = st
    return best


# --------------------------------------------------------------------------------------


def _forms(repo, col):
    R = "R-C16-forms"
    # ---- _radius: linear interpolation
    fi = repo.func(CU, "_radius")
    ev = kin.new_eval(repo)

    def hook(ev_, e, env, ctx):
        if isinstance(e.value, ast.Name) and e.value.id in ("radiuses", "cutoffs"):
            i = rat_of(ev_.ev(e.slice, env, ctx))
            off = i - Rat.atom("i")
            if off.is_const():
                return PW.of(Rat.atom(f"{e.value.id}[i{int(off.const_value()):+d}]"))
        return None

    ev.sub_hooks.append(hook)
    ev.PRIMS = dict(ev.PRIMS)
    ev.PRIMS["digitize"] = lambda self, a, k, n: PW.of(Rat.atom("i"))
    try:
        val = rat_of(ev.call(fi, [kin.A("loc"), kin.A("cutoffs"), kin.A("radiuses")]))
        env = {nm: PW.of(Rat.atom(a)) for nm, a in (("r0", "radiuses[i-1]"), ("r1", "radiuses[i+0]"), ("c0", "cutoffs[i-1]"), ("c1", "cutoffs[i+0]"))}
        want = parse_ref(ev, "r0 + (r1 - r0)*(loc - c0)/(c1 - c0)", env)
        col.check(val.eq(want), R, fi, "_radius: linear interpolation between the bracketing traced radii",
                  "r[i-1] + (r[i] - r[i-1]) * (loc - c[i-1]) / (c[i] - c[i-1])", f"_radius evaluates to {val}", node=fi.node,
                  sides={"code": repr(val), "oracle": repr(want)})
    except Und as e:
        col.unk(R, fi, "_radius", f"outside the analysable fragment: {e}", node=fi.node)
    dg = next((n for n in ast.walk(fi.node) if isinstance(n, ast.Call) and unparse(n.func).endswith("digitize")), None)
    ok = dg is not None and [unparse(a) for a in dg.args[:2]] == ["loc", "cutoffs"]
    col.check(ok, R, fi, "_radius: the bracket is found by digitize(loc, cutoffs)", "", f"digitize call {unparse(dg) if dg else None}", node=dg or fi.node)
    # ---- compartment centres
    fi = repo.func(CU, "build_radiuses_from_xyzr")
    ev = kin.new_eval(repo)
    ls = next((n for n in ast.walk(fi.node) if isinstance(n, ast.Call) and unparse(n.func).endswith("linspace")), None)
    if ls is None:
        raise AnalysisError("build_radiuses_from_xyzr: linspace vanished")
    env = {"ncomp": kin.A("n")}
    ctx = {"mod": repo.mods[fi.file], "cls": None, "defining_cls": None}
    try:
        for st in fi.node.body:
            if isinstance(st, ast.Assign) and st.lineno < ls.lineno and isinstance(st.targets[0], ast.Name):
                try:
                    env[st.targets[0].id] = ev.ev(st.value, env, ctx)
                except Und:
                    pass
        a, b, c = (rat_of(ev.ev(x, env, ctx)) for x in ls.args[:3])
        ok = a.eq(parse_ref(ev, "1/(2*n)")) and b.eq(parse_ref(ev, "1 - 1/(2*n)")) and c.eq(Rat.atom("n"))
        col.check(ok, R, fi, "compartment centres are (i + 1/2)/ncomp, i = 0..ncomp-1", "linspace(1/(2n), 1 - 1/(2n), n)",
                  f"centres are linspace({a}, {b}, {c})", node=ls)
    except Und as e:
        col.unk(R, fi, "compartment centres", str(e), node=ls)
    clip = [n for n in ast.walk(fi.node) if isinstance(n, ast.Assign) and isinstance(n.targets[0], ast.Subscript)
            and unparse(n.targets[0]).replace(" ", "") == "radiuses_each[radiuses_each<min_radius]"]
    col.check(bool(clip) and unparse(clip[0].value) == "min_radius", R, fi, "radii below min_radius are raised to min_radius",
              "radiuses_each[radiuses_each < min_radius] = min_radius", "clipping from below at min_radius is missing or altered", node=clip[0] if clip else fi.node)
    ex = idx.expander(repo, fi)
    rr = next((n for n in walk_no_nested(fi.node) if isinstance(n, ast.Assign) and unparse(n.targets[0]) == "radiuses"), None)
    ok = rr is not None and unparse(rr.value) == "np.asarray([radius_fns[b](range_) for b in branch_indices])"
    col.check(ok, R, fi, "branch b is evaluated with its own radius function at the centres", "radius_fns[b](range_) for b in branch_indices",
              f"radiuses is {unparse(rr.value) if rr else None}", node=rr or fi.node)
    # ---- path lengths
    fi = repo.func(CU, "_compute_pathlengths")
    src = unparse(fi.node)
    ok = "radius = coords_in_branch[0, 4]" in src and "dists = np.asarray([2 * radius])" in src
    col.check(ok, R, fi, "a one-point section has length 2r (sphere of equal area as a cylinder)", "dists = [2 * radius]",
              "the single-point convention (length = 2 * radius) is altered", node=fi.node)
    sq = next((n for n in ast.walk(fi.node) if isinstance(n, ast.Call) and unparse(n.func).endswith("sqrt")), None)
    ok = sq is not None and unparse(sq.args[0]).replace(" ", "") == "point_diffs[:,1]**2+point_diffs[:,2]**2+point_diffs[:,3]**2"
    col.check(ok, R, fi, "segment length is the Euclidean distance of consecutive traced points (x, y, z columns)",
              "sqrt(dx^2 + dy^2 + dz^2)", f"distance is {unparse(sq) if sq else None}", node=sq or fi.node)
    ok = "point_diffs = np.diff(coords_in_branch, axis=0)" in src
    col.check(ok, R, fi, "differences are taken between consecutive points of the branch", "np.diff(coords_in_branch, axis=0)", "diff altered", node=fi.node)
    # ---- zero length, per-compartment length
    fi = repo.func(SW, "swc_to_jaxley")
    src = unparse(fi.node)
    ok = "if pathlen == 0.0:" in src and "pathlengths[i] = 1.0" in src
    col.check(ok, R, fi, "zero-length sections get length 1.0", "pathlengths[i] = 1.0", "zero-length convention altered", node=fi.node)
    ok = "pathlengths = [np.sum(length_traced) for length_traced in each_length]" in src
    col.check(ok, R, fi, "branch length = sum of its segment lengths", "", "path length is not the sum of the segment lengths", node=fi.node)
    # in-place clamping of the traced segment lengths must not precede the path-length computation
    from sa.effects import Effects
    E = Effects(repo)
    exs = idx.expander(repo, fi)
    body = fi.node.body
    def stmt_index(pred):
        for i_, st_ in enumerate(body):
            for n_ in ast.walk(st_):
                if pred(n_):
                    return i_
        return None
    i_len = stmt_index(lambda n_: isinstance(n_, ast.Assign) and unparse(n_.targets[0]) == "pathlengths")
    i_zero = stmt_index(lambda n_: isinstance(n_, ast.Compare) and "pathlen == 0.0" in unparse(n_))
    mutators = []
    for c in exs.calls:
        if isinstance(c.func, ast.Name):
            cf = E.resolve_func(c.func.id, fi)
            if cf is None:
                continue
            params = cf.params
            for e_ in E.summary(cf):
                if e_.root.startswith("param:") and e_.root[6:] in params:
                    k = params.index(e_.root[6:])
                    if k < len(c.args) and unparse(c.args[k]) == "each_length":
                        mutators.append((c, e_))
    if i_len is None or i_zero is None:
        raise AnalysisError("swc_to_jaxley: path-length computation / zero-length guard not found")
    for c, e_ in mutators:
        i_c = stmt_index(lambda n_: n_ is c)
        col.check(i_c is not None and i_c > max(i_len, i_zero), R, fi,
                  f"`{unparse(c.func)}` (clamps the traced segment lengths in place) runs after the path lengths are taken",
                  "path lengths and the zero-length convention see the traced values",
                  f"`{unparse(c.func)}(...)` mutates `each_length` in place ({e_.describe()[:80]}) and now runs before the path "
                  f"lengths are summed: a zero-length section sums to 1e-8 instead of triggering the 1.0 um convention", node=c)
    if not mutators:
        col.ok(R, fi, "no callee mutates the traced segment lengths before they are summed", "", node=fi.node)
    # neurite-type change is judged against the PARENT branch
    rg = repo.func(CU, "_radius_generating_fns")
    g = next((n for n in walk_no_nested(rg.node) if isinstance(n, ast.If) and "types[" in unparse(n.test)), None)
    if g is None:
        col.unk(R, rg, "type change between a branch and its parent", "guard not found", node=rg.node)
    else:
        cmps = [x for x in ast.walk(g.test) if isinstance(x, ast.Compare) and "types[" in unparse(x)]
        t = unparse(cmps[0]).replace(" ", "") if cmps else ""
        ok = t in ("types[i]!=types[parents[i]]", "types[parents[i]]!=types[i]")
        wrong = bool(cmps) and not ok and "parents" not in t
        col.add(R, rg, "first radius of a branch is replaced iff its type differs from its PARENT's type",
                "DISCHARGED" if ok else ("VIOLATED" if wrong else "UNDECIDED"),
                "types[i] != types[parents[i]]" if ok else
                f"the type of branch i is compared with `{t}`: the neighbour in list order is not the parent branch, so radii at "
                f"branch points of multi-neurite cells are not the interpolation of the traced radii", node=g)
    fi = repo.func(SW, "read_swc")
    src = unparse(fi.node)
    ok = "lengths_each = np.repeat(pathlengths, ncomp) / ncomp" in src and "cell.set('length', lengths_each)" in src
    col.check(ok, R, fi, "compartment length = path length of its branch / ncomp", "np.repeat(pathlengths, ncomp) / ncomp",
              "per-compartment length altered", node=fi.node)
    lut = next((n for n in ast.walk(fi.node) if isinstance(n, ast.Dict) and len(n.keys) >= 5 and all(isinstance(k, ast.Constant) and isinstance(k.value, int) for k in n.keys)), None)
    got = {k.value: v.value for k, v in zip(lut.keys, lut.values)} if lut else {}
    want = {0: "undefined", 1: "soma", 2: "axon", 3: "basal", 4: "apical", 5: "custom"}
    col.check(got == want, R, fi, "SWC type names 0..5", str(got), f"type lookup is {got}", node=lut or fi.node)
    ok = "if type_ind < 5.5:" in src and "name = f'custom{type_ind}'" in src and "indices = np.where(types == type_ind)[0].tolist()" in src and \
        "cell.branch(indices).add_to_group(name)" in src
    col.check(ok, R, fi, "type groups partition the branches by SWC type (types > 5 become custom<k>)", "",
              "group assignment by type altered", node=fi.node)
