"""Regenerates MANIFEST.json from the table below (run: /venv/bin/python tools_manifest.py)."""
import json

CLAIMED = {
    "C03": dict(
        category="other",
        text="Static: (i) every third-party call in the gate/mechanism files binds against the runtime signature; "
             "(ii) every built-in state update is proved, as an exact rational-exponential identity for symbolic "
             "state, dt, voltage and parameters, to be x*E + x_inf*(1-E), E=exp(-dt*k), with k>0 and 0<x_inf<1 by "
             "coefficient-sign analysis (=> stays in [0,1], moves toward and never past the steady state); "
             "(iii) removable 0/0 singularities of the rate helpers must be guarded and filled continuously, the "
             "singular voltages are computed exactly. Decides the algebraic/structural part for all inputs; does "
             "not model IEEE overflow outside the clip.",
        design_ref="DESIGN.md §3 C03",
        note="Trusted: python ast, the positivity seeds (exp, dt, *_taumax, *_k_minus), inspect.signature of the "
             "installed jax/numpy. save_exp's clip is treated as exp on the physiological range.",
        technique="exact rational-function abstract interpretation (AST) + runtime-signature binding of call sites",
    ),
    "C04": dict(
        category="translation_validation",
        text="Translation validation of the repository's rate/steady-state/time-constant/current/update expressions "
             "against an independent table of the published equations (spec/kinetics.txt): equality of canonical "
             "multivariate rational-exponential forms by cross-multiplication, valid for every voltage and "
             "parameter value; plus default-parameter, key-discipline and rename rules.",
        design_ref="DESIGN.md §3 C04, Appendix A",
        note="Trusted: spec/kinetics.txt (oracle, written from the cited sources), python ast. exprel compared away "
             "from its removable singularity (guard judged by C03).",
        technique="AST evaluation to canonical rational-exponential forms, compared with a reference table",
    ),
    "C14": dict(
        category="other",
        text="For every built-in channel and every key of init_state: substituting the init_state form into the "
             "update_states form gives back the same form (rational identity for symbolic dt, v, parameters), so the "
             "initial state is a fixed point for every time step; init_state covers every evolved state; in "
             "Module.init_states the three gathers and the write-back use the presence rows of the same channel.",
        design_ref="DESIGN.md §3 C14",
        note="Trusted: python ast; save_exp treated as exp; user-defined channels out of scope.",
        technique="closed algebraic identity over canonical forms + def-use provenance of row selectors",
    ),
}

CLAIMED.update({
    "C02": dict(
        category="other",
        text="Decides the algebraic identities conservation, reciprocity and the M-matrix property reduce to, for all "
             "positive geometries (polynomial identities): the axial-conductance helpers, instantiated with the roles "
             "(sink/source, parameter) read off their call sites, equal the textbook centre-to-centre conductance per "
             "sink area; absolute conductance is symmetric; branch-point weights are proportional to absolute "
             "conductances; conductances are positive; stimulus current is I/(2 pi r l)*1e5 gathered and additively "
             "scattered with one index array. Does not decide floating-point behaviour of a run.",
        design_ref="DESIGN.md §3 C02",
        note="Trusted: python ast; positivity of radius/length/resistivity/capacitance; assembly pairing is judged by C01.",
        technique="call-site role extraction (def-use terms) + exact rational identities",
    ),
    "C08": dict(
        category="other",
        text="Index-space typing per key class (node/synapse): the spaces of recordings.rec_index, external_inds[key] "
             "and the per-type synapse arrays are defined by their stores and every gather/scatter/membership test "
             "must conform; ordering of clamps after updates on every solver path; zero-padding/truncation/"
             "transposition of externals; recs layout; sibling agreement of stimulate/clamp with data_ twins. "
             "Decides where rows land for every wiring; not the numeric values.",
        design_ref="DESIGN.md §3 C08",
        note="Trusted: python ast; primitive producers of index spaces (Appendix B); pandas order semantics.",
        technique="index-space typing over def-use provenance terms + ordering rules on the syntax tree",
    ),
    "C10": dict(
        category="other",
        text="set/data_set/make_trainable select the same rows (in-view rows of the owning table where the key is "
             "set); trainable values are scattered with indices whose space equals the array's position space "
             "(E->S rank conversion for synapse keys); a -1 padded index reaches a scatter only through "
             "mode='drop' with the pad moved out of range; write_trainables reuses the simulation's pstate "
             "construction; the two trainable lists change together.",
        design_ref="DESIGN.md §3 C10",
        note="Trusted: python ast; jax .at[].set(mode='drop') semantics; producer seeds of Appendix B.",
        technique="index-space typing with pad-sentinel tracking + row-selector provenance",
    ),
    "C15": dict(
        category="other",
        text="Only the units clause is decided: every conversion constant (10^7 axial, 10^5 point process, 1000 "
             "mA->uA, /capacitance) equals what the documented units force, by exact comparison with the textbook "
             "formula rewritten in cm/S/A. Convergence orders are limits over runs and are not decided.",
        design_ref="DESIGN.md §3 C15",
        note="Trusted: documented units as seeds. The convergence-order clauses of C15 are NOT covered (numerical).",
        technique="exact rational identities against unit-rewritten textbook formulas",
    ),
    "C17": dict(
        category="other",
        text="inverse(forward(x))==x and forward(inverse(y))==y as identities of canonical exp/log forms on the "
             "unsaturated domain; clipped exponentials inside declared bijections are reported; strict monotonicity "
             "by the sign of d forward/d exp(x); limits of forward equal the declared bounds; composite transforms "
             "delegate in the right order/direction with one mask; no Python branch on the value.",
        design_ref="DESIGN.md §3 C17",
        note="Trusted: python ast; upper>lower for SigmoidTransform; round-off not decided; CustomTransform is user code.",
        technique="exact exp/log term algebra, symbolic limits and derivative signs",
    ),
})

CLAIMED.update({
    "C01": dict(
        category="other",
        text="Structural necessary conditions of 'the voltage step solves the discretised cable equation': the solve "
             "indexer's accessors agree (as affine forms in symbolic per-branch counts) with the writer of the padded "
             "layout; contribution tables of both implicit back ends, extracted by abstract interpretation of the "
             ".at[].add/set program, equal the backward-Euler matrix rows; the four elimination steps are Gaussian row "
             "operations (exact identities); level schedule, branch-point ends, scheme formulas (bwd/CN/fwd), "
             "solver_kwargs binding, conductance roles/forms, dimension of the sparse system, refusal guards. Does not "
             "decide numerical stability or the third-party tridiagonal kernels.",
        design_ref="DESIGN.md §3 C01",
        note="Trusted: python ast; tridiax kernels; role names of the solver's parameters; numerical claims (backward "
             "error, uniqueness) are NOT decided.",
        technique="abstract interpretation of array programs to contribution tables + exact algebra + ordering rules",
    ),
    "C06": dict(
        category="other",
        text="Transitive write set of integrate over the resolved call graph with freshness/alias tracking is within "
             "{jaxnodes, jaxedges}; no mutation of arguments or mutable defaults; no Python control flow / numpy / "
             "scalar conversion on traced values in the functions reachable from the scan; RNG only in connect.py; "
             "nested checkpoint scan threads carry/inputs/outputs correctly and integrate pads at the end. Does not "
             "decide round-off level differences.",
        design_ref="DESIGN.md §3 C06",
        note="Trusted: python ast; JAX hands fresh pytrees to scanned functions; names of traced parameters (seed list).",
        technique="effect (write-set) and alias analysis over the call graph + tracer-taint analysis",
    ),
    "C07": dict(
        category="other",
        text="Per-path equality of the scan length behind the returned state and the number of returned steps; the "
             "scan body reaches Module.step only through step_fn with the same settings; init_fn hands back given "
             "states unchanged; initial recording and scan share one state; recs layout; padding position.",
        design_ref="DESIGN.md §3 C07",
        note="Trusted: python ast; determinism (C06). Equality of numbers is not decided.",
        technique="provenance terms per control-flow path + call-argument role checks",
    ),
    "C09": dict(
        category="other",
        text="Index spaces and pre/post roles of every gather in the synapse update/current code; area conversion, "
             "linearisation voltage and scatter on the post side; secant linearisation normal form and accumulation "
             "signs agree with the channel code; additive scatter; type index == position in the synapse list; "
             "trainable synapse parameters/states scattered after E->S conversion.",
        design_ref="DESIGN.md §3 C09",
        note="Trusted: python ast; pandas groupby(sort=False) order; scatter_add commutativity up to round-off.",
        technique="index-space typing + def-use role provenance + exact algebra on extracted snippets",
    ),
    "C11": dict(
        category="other",
        text="Row-selector provenance of every store into the base tables from view-callable methods (in-view rows, "
             "listed structural sites with their guards); selection funnels through _at_nodes/_at_edges with "
             "scope-dependent columns; slice range; dense re-ranking keys; both-ends rule for edges; loc scope.",
        design_ref="DESIGN.md §3 C11",
        note="Trusted: python ast; pandas isin/rank/loc semantics; value-level index-form handling not decided.",
        technique="row-selector provenance (def-use terms) + structural rules on the selection API",
    ),
    "C20": dict(
        category="other",
        text="Mixed-radix (stride) typing of the pre/post row layouts with symbolic population sizes (reshape/T/ravel "
             "must regroup with symbolically equal extents); length case split {0,1,2,3} of the number of "
             "connections; guarded stacking; pre/post site roles; positional lookups on view arrays with global "
             "indices are rejected.",
        design_ref="DESIGN.md §3 C20",
        note="Trusted: python ast; pandas groupby().sample order; every cell has branch 0/comp 0; random distribution not decided.",
        technique="symbolic layout (stride) typing + finite length case split + role provenance",
    ),
})

CLAIMED.update({
    "C05": dict(
        category="other",
        text="Gradient VALUES are not decidable statically; claimed is gradient-path hygiene only: no Python control "
             "flow / numpy / scalar conversion on traced values on the simulation path, no gradient-blocking "
             "primitive, every division inside a where-guarded helper is safe in every region (double-where), "
             "padded trainable indices are dropped. A breach makes jax.grad wrong, NaN or impossible.",
        design_ref="DESIGN.md §3 C05",
        note="NOT covered: numerical correctness of derivatives, checkpointing equivalence of gradients, accumulation "
             "over shared parameters. Trusted: python ast, seed list of traced parameter names.",
        technique="tracer-taint analysis + who-may-call rule + region-wise denominator analysis (exact algebra)",
    ),
    "C12": dict(
        category="other",
        text="Structural clause only: constructors concatenate constituent tables in order with dense global indices; "
             "every local->global conversion adds the offset of the same index space (exact forms for the network's "
             "edge blocks); channel union and presence fill. 'Simulates each cell exactly as alone' and permutation "
             "equivariance are numerical and not decided.",
        design_ref="DESIGN.md §3 C12",
        note="Trusted: python ast; pandas concat order. Independence of uncoupled parts is NOT decided.",
        technique="sibling agreement of constructors + exact offset forms",
    ),
    "C13": dict(
        category="other",
        text="Typestate over row-label registries (guarded or rewritten when rows are renumbered); total length "
             "conservation formula; SWC radius through the same function/roles as read_swc; guards precede "
             "averaging; in-place row replacement with dense renumbering; structure attributes stored before "
             "re-initialisation. 'Indistinguishable in simulation' reduces to C01 and is not decided here.",
        design_ref="DESIGN.md §3 C13",
        note="Trusted: python ast; pandas drop/iloc/concat; single-branch views.",
        technique="typestate/guard rule + def-use provenance + ordering on the syntax tree",
    ),
    "C16": dict(
        category="other",
        text="Two narrow clauses: no must-stale read of a loop-assigned variable in the SWC helper loops (path "
             "enumeration with correlated tests + definite assignment); exact forms of the radius interpolation, "
             "compartment centres, clipping, one-point length, zero-length and per-compartment length "
             "conventions, type-name lookup. Section splitting / connectivity / path lengths of arbitrary files are "
             "not decided.",
        design_ref="DESIGN.md §3 C16",
        note="Most of C16 (graph algorithms over file contents) is NOT covered.",
        technique="reaching-definition (must-stale) analysis over structured paths + exact algebra of forms",
    ),
    "C18": dict(
        category="other",
        text="Picklable/independent by construction: closure-escape analysis (no lambda/nested function stored on a "
             "module, stored partials wrap module-level functions), __getattr__ dunder guard first, no mutable "
             "default stored on instances, no class-level container mutated, Network deep-copies coordinates. "
             "Round-trip equality of tables/results is not decided.",
        design_ref="DESIGN.md §3 C18",
        note="Trusted: python ast; pickle semantics for partial of module-level functions.",
        technique="closure-escape analysis over def-use terms + structural guards",
    ),
    "C19": dict(
        category="other",
        text="Per-operation invariants: acquire/release pairing of insert/delete_channel with shared resources "
             "(computed from the class definitions) released only when unused; row-label registries guarded or "
             "rewritten on renumbering; trainable-key classifier total; paired registries change together.",
        design_ref="DESIGN.md §3 C19",
        note="Consistency after EVERY history beyond these per-operation invariants is not decided.",
        technique="effect pairing (acquire/release) + exhaustiveness of a classifier + typestate guards",
    ),
})

NOT_APPLICABLE = {
}

ALL = [f"C{i:02d}" for i in range(1, 21)]
PENDING_REASON = "check not built yet in this session; see DESIGN.md for the planned static rules"


def main():
    checks = []
    for pid in ALL:
        if pid not in CLAIMED:
            continue
        c = dict(CLAIMED[pid])
        # the rules that actually run (ids and one-line statements), taken from the evidence the check itself writes
        try:
            ev = json.load(open(f"evidence/{pid}.json"))
            rules = ev.get("coverage", {}).get("rules", {})
            lines = [f"{rid}: {r['text']}" for rid, r in sorted(rules.items()) if r.get("instances", 0) > 0 and r.get("text")]
            if lines:
                c["text"] = c["text"] + " Rules decided on every run (see evidence): " + "; ".join(lines) + "."
        except Exception:
            pass
        checks.append({
            "property_id": pid,
            "quick_cmd": f"./check {pid} --tier quick",
            "thorough_cmd": f"./check {pid} --tier thorough",
            "evidence_file": f"/verif/evidence/{pid}.json",
            "replay_cmd_template": f"./check {pid} --tier quick  # replay file {{path}} names rule and construct",
            "engine": "sa",
            "level_claimed": {"category": c["category"], "text": c["text"], "design_ref": c["design_ref"]},
            "level_note": c["note"],
            "technique": c["technique"],
        })
    na = [{"property_id": p, "reason": NOT_APPLICABLE.get(p, PENDING_REASON)} for p in ALL if p not in CLAIMED]
    m = {
        "version": 1,
        "setup_cmd": "/venv/bin/python -m compileall -q sa rules >/dev/null 2>&1; /venv/bin/python -c \"import ast\"",
        "hooks": {
            "guard": "JAXLEY_VERIF",
            "enable": "no hooks: the checks parse /repo's working tree with ast and never import or run jaxley",
            "baseline_off_cmd": "cd /repo && /venv/bin/python -m pytest -ra -q -p no:cacheprovider --timeout=900 --continue-on-collection-errors",
            "source_commits": [],
            "add_only": True,
        },
        "engines": [
            {"name": "sa", "path": "/verif/sa", "serves_properties": sorted(CLAIMED),
             "kind_free_text": "repository-specific static analysis over Python ast: exact rational algebra (E2), "
                               "def-use provenance terms, index-space typing, effects, structured paths, API binding"},
        ],
        "checks": checks,
        "notes": "Static analysis only. Every check parses /repo's current working tree; nothing from jaxley is "
                 "imported or executed. Exit 0 = all obligations discharged (known findings listed in "
                 "known_findings.json print KNOWN-FINDING lines); exit 1 = VIOLATION; exit 2 = ANALYSIS-ERROR "
                 "(anchor vanished / construct outside the analysable fragment / rule went blind).",
        "not_applicable": na,
    }
    json.dump(m, open("MANIFEST.json", "w"), indent=1)
    print("checks:", len(checks), "not_applicable:", len(na))


if __name__ == "__main__":
    main()
