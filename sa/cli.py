"""Command line: ./check <ID> [--tier quick|thorough] [--only RULE]"""
import argparse
import importlib
import os
import sys

from . import core


def main(argv=None):
    ap = argparse.ArgumentParser()
    ap.add_argument("prop")
    ap.add_argument("--tier", default=os.environ.get("VERIF_TIER", "quick"))
    ap.add_argument("--only", default=None, help="restrict output to one rule (diagnosis)")
    a = ap.parse_args(argv)
    tier = a.tier if a.tier in ("quick", "thorough") else "quick"
    prop = a.prop.upper()
    try:
        mod = importlib.import_module(f"rules.{prop.lower()}")
    except ModuleNotFoundError:
        print(f"ANALYSIS-ERROR property={prop} no rule module")
        return 2
    from rules import common
    post = None
    if tier == "thorough":
        def post():
            from . import selftest
            r = selftest.run(prop)
            lines = []
            for x in r["problems"]:
                lines.append(f"ANALYSIS-ERROR property={prop} self-test variant {x['id']} ({x['kind']}): {x['status']} {x.get('rules')} {x['detail'][:200]}")
            if r["variants"] and not r["ok"] and not r["problems"]:
                lines.append(f"ANALYSIS-ERROR property={prop} self-test: only {r.get('applied')} of {r['variants']} variants still apply to this tree")
            extra = {"selftest": {"variants": r["variants"], "applied": r.get("applied", 0), "detected": r.get("detected", 0),
                                  "silent_on_preserving": r.get("silent", 0),
                                  "undecided_on_breaking": r.get("undecided_on_breaking", 0),
                                  "matrix": [{k: x.get(k) for k in ("id", "kind", "status", "rules")} for x in r["results"]]}}
            return extra, (0 if r["ok"] else 2), lines
    rc = core.run_property(
        prop,
        tier,
        lambda repo, col, tier_: common.run_all(prop, repo, col, tier_),
        getattr(mod, "LEVEL", "other"),
        mod.EXPLANATION,
        getattr(mod, "ASSUMPTIONS", []),
        post=post,
    )
    return rc


if __name__ == "__main__":
    sys.stdout.reconfigure(line_buffering=True)
    try:
        sys.exit(main())
    except SystemExit:
        raise
    except BaseException as e:  # never let a traceback look like a violation
        import traceback

        traceback.print_exc()
        print(f"ANALYSIS-ERROR checker crashed: {type(e).__name__}: {e}")
        sys.exit(2)
