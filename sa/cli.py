"""Command line: ./check <ID> [--tier quick|thorough] [--only RULE]"""
import argparse
import importlib
import os
import sys

from . import core


def main(argv=None):
    ap = argparse.ArgumentParser()
    ap.add_argument("prop")
    ap.add_argument("--tier", default=os.environ.get("VERIF_TIER", "quick"))
    ap.add_argument("--only", default=None, help="restrict output to one rule (diagnosis)")
    a = ap.parse_args(argv)
    tier = a.tier if a.tier in ("quick", "thorough") else "quick"
    prop = a.prop.upper()
    try:
        mod = importlib.import_module(f"rules.{prop.lower()}")
    except ModuleNotFoundError:
        print(f"ANALYSIS-ERROR property={prop} no rule module")
        return 2
    rc = core.run_property(
        prop,
        tier,
        mod.check,
        getattr(mod, "LEVEL", "other"),
        mod.EXPLANATION,
        getattr(mod, "ASSUMPTIONS", []),
    )
    if tier == "thorough" and hasattr(mod, "selftest"):
        rc2 = mod.selftest(prop)
        if rc == 0 and rc2 != 0:
            rc = rc2
    return rc


if __name__ == "__main__":
    sys.stdout.reconfigure(line_buffering=True)
    try:
        sys.exit(main())
    except SystemExit:
        raise
    except BaseException as e:  # never let a traceback look like a violation
        import traceback

        traceback.print_exc()
        print(f"ANALYSIS-ERROR checker crashed: {type(e).__name__}: {e}")
        sys.exit(2)
