"""Provenance terms (sa.terms.T) as exact rational forms (sa.algebra.Rat).

`term_rat(t, leaf)` evaluates the arithmetic skeleton of a term (+ - * / ** with integer exponent, unary minus,
numeric constants); every other sub-term is a leaf: `leaf(sub)` may return a Rat (a named atom, a constant) or
None, in which case the sub-term becomes an opaque atom named by its key.  Two expressions that are algebraically
equal (operand order, distribution of a division over a sum, factoring) get equal forms, so rules that compare
*what is computed* do not depend on how the expression is written.
"""
from __future__ import annotations

from fractions import Fraction as Fr
from typing import Callable, Dict, Optional

from .algebra import Rat, Und
from .terms import T


def term_rat(t: T, leaf: Callable[[T], Optional[Rat]] = None, _memo: Dict[str, Rat] = None) -> Rat:
    if leaf is not None:
        r = leaf(t)
        if r is not None:
            return r
    if t.op == "const" and isinstance(t.name, (int, float)) and not isinstance(t.name, bool):
        return Rat.const(Fr(str(t.name)))
    if t.op == "binop" and t.name in ("+", "-", "*", "/", "**"):
        a = term_rat(t.args[0], leaf)
        if t.name == "**":
            e = t.args[1]
            if e.op == "const" and isinstance(e.name, int):
                return a.powi(e.name)
            if e.op == "unary" and e.name == "USub" and e.args[0].op == "const" and isinstance(e.args[0].name, int):
                return a.powi(-e.args[0].name)
            return Rat.atom("T:" + t.key())
        b = term_rat(t.args[1], leaf)
        if t.name == "+":
            return a + b
        if t.name == "-":
            return a - b
        if t.name == "*":
            return a * b
        if b.is_zero():
            raise Und("division by zero form")
        return a / b
    if t.op == "unary" and t.name == "USub":
        return -term_rat(t.args[0], leaf)
    if t.op == "unary" and t.name == "UAdd":
        return term_rat(t.args[0], leaf)
    return Rat.atom("T:" + t.key())


def coefficient(form: Rat, atom: str) -> Optional[Rat]:
    """d form / d atom when `form` is linear in `atom` (numerator linear, denominator free of the atom); else None."""
    if atom in form.d.atoms():
        return None
    num = {}
    for mono, c in form.n.t.items():
        e = dict(mono).get(atom, 0)
        if e not in (0, 1):
            return None
        if e == 1:
            rest = tuple(sorted((a, x) for a, x in mono if a != atom))
            num[rest] = num.get(rest, 0) + c
    from .algebra import Poly
    return Rat(Poly(num), form.d)
