"""Engine E2: exact canonical algebra over a term domain.

Values are multivariate rational functions with rational coefficients over *atoms*.
Atoms are free variables, opaque subscripts (`params[«name»_gK]`), and transcendental
atoms `exp(m)` (one per monic monomial `m` of a polynomial argument, with *rational*
exponents, so `exp(-(v+65)/18) = exp(v)^(-1/18) * exp(1)^(-65/18)`), `log(r)`, `tanh(r)`,
`abs(r)`.  Numeric literals are read as exact decimals.  Equality is decided by
cross-multiplication -- complete for this algebra, no floating point, no solver.
"""
from __future__ import annotations

import ast
from fractions import Fraction as Fr
from typing import Dict, List, Optional, Tuple

MAX_TERMS = 50_000


class Und(Exception):
    """Expression/statement outside the analysable fragment."""


# --------------------------------------------------------------------------------------
# polynomials with rational exponents over atoms


def _mono_mul(a: tuple, b: tuple) -> tuple:
    if not a:
        return b
    if not b:
        return a
    d = dict(a)
    for k, e in b:
        d[k] = d.get(k, 0) + e
    return tuple(sorted((k, e) for k, e in d.items() if e != 0))


class Poly:
    __slots__ = ("t",)

    def __init__(self, t=None):
        self.t = {k: v for k, v in (t or {}).items() if v != 0}

    @staticmethod
    def const(c) -> "Poly":
        return Poly({(): Fr(c)})

    @staticmethod
    def atom(a: str, e=1) -> "Poly":
        return Poly({((a, Fr(e)),): Fr(1)})

    def __add__(self, o):
        t = dict(self.t)
        for k, v in o.t.items():
            t[k] = t.get(k, 0) + v
        return Poly(t)

    def __neg__(self):
        return Poly({k: -v for k, v in self.t.items()})

    def __sub__(self, o):
        return self + (-o)

    def __mul__(self, o):
        if len(self.t) * len(o.t) > MAX_TERMS:
            raise Und("polynomial too large")
        t = {}
        for k1, v1 in self.t.items():
            for k2, v2 in o.t.items():
                k = _mono_mul(k1, k2)
                t[k] = t.get(k, 0) + v1 * v2
        return Poly(t)

    def scale(self, c):
        return Poly({k: v * c for k, v in self.t.items()})

    def is_zero(self):
        return not self.t

    def is_const(self):
        return all(k == () for k in self.t)

    def const_value(self) -> Fr:
        return self.t.get((), Fr(0))

    def atoms(self):
        return {a for k in self.t for a, _ in k}

    def single_term(self):
        if len(self.t) == 1:
            (k, v), = self.t.items()
            return k, v
        return None

    def __repr__(self):
        def mono(k):
            return "*".join(a if e == 1 else f"{a}^{e}" for a, e in k) or "1"

        return " + ".join(f"{v}*{mono(k)}" for k, v in sorted(self.t.items(), key=str)) or "0"


ONE_P = Poly.const(1)


class Rat:
    __slots__ = ("n", "d")

    def __init__(self, n: Poly, d: Poly = None):
        self.n = n
        self.d = d if d is not None else ONE_P
        if self.d.is_zero():
            raise Und("division by an identically zero form")
        # cheap normalisation: constant denominators are folded, common monomial dropped
        if self.d.is_const() and self.d.t:
            c = self.d.const_value()
            if c != 1:
                self.n = self.n.scale(1 / c)
                self.d = ONE_P
        else:
            st = self.d.single_term()
            if st is not None:
                k, v = st
                inv = tuple((a, -e) for a, e in k)
                self.n = Poly({_mono_mul(m, inv): c / v for m, c in self.n.t.items()})
                self.d = ONE_P

    @staticmethod
    def const(c):
        return Rat(Poly.const(c))

    @staticmethod
    def atom(a, e=1):
        return Rat(Poly.atom(a, e))

    def __add__(self, o):
        if self.d.t == o.d.t:
            return Rat(self.n + o.n, self.d)
        return Rat(self.n * o.d + o.n * self.d, self.d * o.d)

    def __sub__(self, o):
        return self + (-o)

    def __neg__(self):
        return Rat(-self.n, self.d)

    def __mul__(self, o):
        return Rat(self.n * o.n, self.d * o.d)

    def __truediv__(self, o):
        if o.n.is_zero():
            raise Und("division by an identically zero form")
        return Rat(self.n * o.d, self.d * o.n)

    def powi(self, k: int):
        r = Rat.const(1)
        for _ in range(abs(k)):
            r = r * self
        return r if k >= 0 else Rat.const(1) / r

    def powq(self, q: Fr):
        if q.denominator == 1:
            return self.powi(int(q))
        sn, sd = self.n.single_term(), self.d.single_term()
        if sn and sd and sn[1] == 1 and sd[1] == 1:
            return Rat(Poly({tuple((a, e * q) for a, e in sn[0]): Fr(1)}),
                       Poly({tuple((a, e * q) for a, e in sd[0]): Fr(1)}))
        raise Und("non-integer power of a non-monomial")

    def eq(self, o) -> bool:
        return (self.n * o.d - o.n * self.d).is_zero()

    def cancel_content(self) -> "Rat":
        """Divide numerator and denominator by the monomial that divides EVERY term of both (w / (w + w*E) -> 1 / (1 + E)) and by the
        common rational factor of the denominator's leading coefficient.  No polynomial GCD: only what is common to all terms."""
        terms = list(self.n.t) + list(self.d.t)
        if not terms or not self.n.t:
            return self
        common = None
        for m in terms:
            d_ = dict(m)
            if common is None:
                common = dict(d_)
            else:
                common = {a: min(e, d_[a]) for a, e in common.items() if a in d_ and (e > 0) == (d_[a] > 0)}
            if not common:
                return self
        common = {a: e for a, e in common.items() if e != 0}
        if not common:
            return self
        inv = tuple(sorted((a, -e) for a, e in common.items()))
        return Rat(Poly({_mono_mul(m, inv): c for m, c in self.n.t.items()}), Poly({_mono_mul(m, inv): c for m, c in self.d.t.items()}))

    def is_zero(self):
        return self.n.is_zero()

    def is_const(self):
        return self.n.is_const() and self.d.is_const()

    def const_value(self) -> Fr:
        return self.n.const_value() / self.d.const_value()

    def atoms(self):
        return self.n.atoms() | self.d.atoms()

    def is_polynomial(self):
        return self.d.is_const()

    def monomial(self):
        """(mono, coeff) if the form equals a single Laurent monomial, else None.

        The representation is not reduced, so n = M*d is tested for the candidate
        monomials M = (term of n)/(term of d)."""
        if self.n.is_zero():
            return None
        sn, sd = self.n.single_term(), self.d.single_term()
        if sn is not None and sd is not None:
            return _mono_mul(sn[0], tuple((a, -e) for a, e in sd[0])), sn[1] / sd[1]
        if len(self.n.t) != len(self.d.t):
            return None
        k1, v1 = sorted(self.n.t.items(), key=str)[0]
        for k0, v0 in self.d.t.items():
            m = _mono_mul(k1, tuple((a, -e) for a, e in k0))
            c = v1 / v0
            cand = Poly({m: c})
            if (cand * self.d - self.n).is_zero():
                return m, c
        return None

    def __repr__(self):
        if self.d.t == ONE_P.t:
            return f"{self.n}"
        return f"({self.n}) / ({self.d})"


ZERO, ONE = Rat.const(0), Rat.const(1)


# --------------------------------------------------------------------------------------
# transcendental atoms


class Atoms:
    """Registry of transcendental atoms keyed by the canonical form of their argument."""

    def __init__(self, clip_transparent: bool = True):
        self.tab: List[Tuple[str, Rat]] = []
        self.clip_transparent = clip_transparent
        self.clip_sites: List[Tuple[str, Rat]] = []
        self.exp_args: List[Rat] = []  # arguments of every exp evaluated (for "which exponentials occur" comparisons)
        self.positive: set = set()  # atom names declared/derived positive

    def _lookup(self, kind: str, arg: Rat) -> Tuple[Optional[str], Fr]:
        """Find an existing atom whose argument is a rational multiple of `arg`."""
        for i, (k, a) in enumerate(self.tab):
            if k != kind:
                continue
            if a.is_zero():
                continue
            q = arg / a
            if q.is_const():
                return f"{kind}#{i}", q.const_value()
            # the quotient of two rational functions is not reduced: arg == c * a  iff  arg.n * a.d == c * a.n * arg.d as polynomials
            lhs, rhs = arg.n * a.d, a.n * arg.d
            if lhs.t and rhs.t and set(lhs.t) == set(rhs.t):
                k0 = next(iter(sorted(lhs.t, key=str)))
                c = lhs.t[k0] / rhs.t[k0]
                if all(lhs.t[k_] == c * rhs.t[k_] for k_ in lhs.t):
                    return f"{kind}#{i}", Fr(c)
        return None, Fr(0)

    def _new(self, kind: str, arg: Rat) -> str:
        self.tab.append((kind, arg))
        return f"{kind}#{len(self.tab) - 1}"

    def arg_of(self, name: str) -> Optional[Rat]:
        if "#" in name:
            kind, i = name.split("#")
            return self.tab[int(i)][1]
        return None

    def exp(self, a: Rat, kind: str = "exp") -> Rat:
        if kind == "exp":
            self.exp_args.append(a)
        if a.is_zero():
            return ONE
        if a.is_polynomial():
            # exp(sum c_i m_i) = prod exp(m_i)^{c_i}; one atom per monic monomial.
            out = ONE
            for mono, c in sorted(a.n.t.items(), key=str):
                c = c / a.d.const_value()
                # a log atom with unit power inside the monomial: exp(c*log q) = q^c
                if len(mono) == 1 and mono[0][0].startswith("log#") and mono[0][1] == 1:
                    q = self.arg_of(mono[0][0])
                    out = out * q.powq(c)
                    continue
                nm = f"{kind}[{'*'.join(x if e == 1 else f'{x}^{e}' for x, e in mono) or '1'}]"
                self.positive.add(nm)
                out = out * Rat.atom(nm, c)
            return out
        nm, q = self._lookup(kind, a)
        if nm is None:
            nm, q = self._new(kind, a), Fr(1)
        self.positive.add(nm)
        return Rat.atom(nm, q)

    def log(self, r: Rat) -> Rat:
        r = r.cancel_content()
        # log of a positive monomial in exp-atoms: linear in their arguments
        mc = r.monomial()
        if mc is not None and mc[1] > 0:
            mono, c = mc
            if all(a.startswith("exp[") or a.startswith("exp#") for a, _ in mono):
                out = ZERO
                ok = True
                for a, e in mono:
                    arg = self._exp_arg(a)
                    if arg is None:
                        ok = False
                        break
                    out = out + arg * Rat.const(e)
                if ok and c == 1:
                    return out
                if ok:
                    return out + self._opaque("log", Rat.const(c))
        # log(n/d) = log(n) - log(d) when one side is a positive monomial in exponentials (then the other side is positive
        # too wherever the logarithm is defined):  log(e^x / (1 + e^x)) = x - log(1 + e^x)
        def pos_exp_mono(p):
            st = p.single_term()
            # a positive constant is the empty product of exponentials:  log(1 / (1 + e^x)) = -log(1 + e^x)
            return st is not None and st[1] > 0 and all(a.startswith("exp[") or a.startswith("exp#") for a, _ in st[0])
        if not r.n.is_zero() and (pos_exp_mono(r.n) != pos_exp_mono(r.d)) and (pos_exp_mono(r.n) or pos_exp_mono(r.d)) and \
                r.n.single_term() != r.d.single_term():
            ln = self.log(Rat(r.n)) if pos_exp_mono(r.n) else self._opaque("log", Rat(r.n))
            ld = self.log(Rat(r.d)) if pos_exp_mono(r.d) else (ZERO if r.d.t == ONE_P.t else self._opaque("log", Rat(r.d)))
            return ln - ld
        return self._opaque("log", r)

    def _exp_arg(self, name: str) -> Optional[Rat]:
        if name.startswith("exp#"):
            return self.arg_of(name)
        if name.startswith("exp["):
            body = name[4:-1]
            if body == "1":
                return ONE
            r = ONE
            for f in body.split("*"):
                if "^" in f:
                    x, e = f.rsplit("^", 1)
                    r = r * Rat.atom(x, Fr(e))
                else:
                    r = r * Rat.atom(f)
            return r
        return None

    def _opaque(self, kind: str, r: Rat) -> Rat:
        for i, (k, a) in enumerate(self.tab):
            if k == kind and a.eq(r):
                return Rat.atom(f"{kind}#{i}")
        return Rat.atom(self._new(kind, r))

    def odd(self, kind: str, r: Rat) -> Rat:
        """Odd function atom (tanh): f(-a) = -f(a)."""
        for i, (k, a) in enumerate(self.tab):
            if k == kind:
                if a.eq(r):
                    return Rat.atom(f"{kind}#{i}")
                if a.eq(-r):
                    return -Rat.atom(f"{kind}#{i}")
        return Rat.atom(self._new(kind, r))

    def even(self, kind: str, r: Rat) -> Rat:
        for i, (k, a) in enumerate(self.tab):
            if k == kind and (a.eq(r) or a.eq(-r)):
                return Rat.atom(f"{kind}#{i}")
        return Rat.atom(self._new(kind, r))


# --------------------------------------------------------------------------------------
# piecewise values (jnp.where)


class PW:
    """Piecewise value: list of (conds, Rat); conds = frozenset of (guard-id, bool)."""

    __slots__ = ("pieces",)

    def __init__(self, pieces):
        self.pieces = pieces

    @staticmethod
    def of(r: Rat) -> "PW":
        return PW([(frozenset(), r)])

    def single(self) -> Optional[Rat]:
        if len(self.pieces) == 1 and not self.pieces[0][0]:
            return self.pieces[0][1]
        return None

    def on(self, conds: frozenset) -> "PW":
        out = []
        for c, r in self.pieces:
            if any((g, not b) in c for g, b in conds):
                continue
            out.append((frozenset(x for x in c if x not in conds), r))
        return PW(out)


def _consistent(c1, c2):
    return not any((g, not b) in c2 for g, b in c1)


def pw_bin(a: PW, b: PW, op) -> PW:
    out = []
    for c1, r1 in a.pieces:
        for c2, r2 in b.pieces:
            if _consistent(c1, c2):
                out.append((c1 | c2, op(r1, r2)))
    if len(out) > 64:
        raise Und("too many pieces")
    return PW(out)


def pw_un(a: PW, op) -> PW:
    return PW([(c, op(r)) for c, r in a.pieces])


# --------------------------------------------------------------------------------------
# other abstract values


class StrV:
    def __init__(self, s):
        self.s = s

    def __repr__(self):
        return f"StrV({self.s!r})"


class SymDict:
    """Dictionary whose entries are symbolic: d[key] is the atom `name[key]`."""

    def __init__(self, name, known=None):
        self.name = name
        self.known = dict(known or {})
        self.reads = []

    def get(self, key):
        self.reads.append(key)
        if key in self.known:
            return self.known[key]
        return PW.of(Rat.atom(f"{self.name}[{key}]"))


class SymArr:
    """Symbolic integer table T with T[b] an atom and T[b+1] = T[b] + step[b] (a cumulative
    table), or a plain per-branch table when step is None."""

    def __init__(self, name, step=None, var="b"):
        self.name, self.step, self.var = name, step, var

    def index(self, i: "Rat") -> "Rat":
        b = Rat.atom(self.var)
        off = i - b
        if off.is_zero():
            return Rat.atom(f"{self.name}[{self.var}]")
        if self.step is not None and off.eq(ONE):
            return Rat.atom(f"{self.name}[{self.var}]") + Rat.atom(f"{self.step}[{self.var}]")
        if i.is_const() and i.const_value() == 0 and self.step is not None:
            return ZERO
        raise Und(f"index {i} into symbolic table {self.name}")


class ElemArr(SymArr):
    """Elementwise combination of symbolic tables (and scalars): (A op B)[i] = A[i] op B[i]."""

    def __init__(self, fn, what):
        self.fn, self.name, self.step, self.var = fn, what, None, "b"

    def index(self, i):
        return self.fn(i)


class ObjV:
    def __init__(self, cls, attrs=None):
        self.cls = cls
        self.attrs = dict(attrs or {})


class ClosureV:
    """A function defined inside the function being evaluated (captures the environment by reference)."""

    def __init__(self, node, env, ctx):
        self.node, self.env, self.ctx = node, env, ctx


class BoundV:
    """A bound method used as a value (`self.m_gate` stored in a table of gates and called later)."""

    def __init__(self, fi, selfv):
        self.fi, self.selfv = fi, selfv


class NoneV:
    pass


NONE = NoneV()


def as_pw(v) -> PW:
    if isinstance(v, PW):
        return v
    if isinstance(v, Rat):
        return PW.of(v)
    raise Und(f"numeric value expected, got {type(v).__name__}")


def rat_of(v) -> Rat:
    p = as_pw(v).single()
    if p is None:
        raise Und("piecewise value where a single form is required")
    return p


# --------------------------------------------------------------------------------------
# evaluator


class Evaluator:
    """Evaluates straight-line numeric repository code over the term domain."""

    NUMPY_ROOTS = ("jnp", "np", "jax", "math")

    def __init__(self, repo, atoms: Atoms = None, max_depth: int = 6):
        self.repo = repo
        self.atoms = atoms or Atoms()
        self.max_depth = max_depth
        self.guards: List[Tuple[str, Rat, Rat]] = []  # (kind, lhs-form, bound)
        self.divisions: List[Tuple[ast.AST, object, PW, str]] = []
        self.opaque_calls: Dict[str, object] = {}  # function name -> callable(args)->value
        self.trace_div = False
        self.call_stack: List[str] = []
        self.sub_hooks = []

    # -- guards ------------------------------------------------------------------------
    def guard_id(self, kind: str, lhs: Rat, bound: Rat) -> int:
        for i, (k, l, b) in enumerate(self.guards):
            if k == kind and b.eq(bound) and (l.eq(lhs) or (kind == "abs<" and l.eq(-lhs))):
                return i
        self.guards.append((kind, lhs, bound))
        return len(self.guards) - 1

    # -- expressions -------------------------------------------------------------------
    def ev(self, e: ast.AST, env: dict, ctx):
        m = getattr(self, "ev_" + type(e).__name__, None)
        if m is None:
            raise Und(f"expression {type(e).__name__}: {ast.unparse(e)[:60]}")
        return m(e, env, ctx)

    def ev_Constant(self, e, env, ctx):
        v = e.value
        if isinstance(v, bool):
            return StrV(repr(v))
        if isinstance(v, int):
            return PW.of(Rat.const(v))
        if isinstance(v, float):
            return PW.of(Rat.const(Fr(repr(v))))
        if isinstance(v, str):
            return StrV(v)
        if v is None:
            return NONE
        raise Und("constant")

    def ev_Name(self, e, env, ctx):
        if e.id in env:
            return env[e.id]
        if e.id == "pi":
            return PW.of(Rat.atom("pi"))
        # module-level numeric constants are not used on the analysed paths
        return PW.of(Rat.atom(e.id))

    def ev_UnaryOp(self, e, env, ctx):
        if isinstance(e.op, ast.USub):
            return pw_un(as_pw(self.ev(e.operand, env, ctx)), lambda r: -r)
        if isinstance(e.op, ast.UAdd):
            return self.ev(e.operand, env, ctx)
        raise Und("unary op")

    def ev_BinOp(self, e, env, ctx):
        a = self.ev(e.left, env, ctx)
        if isinstance(e.op, ast.Pow):
            b = self.ev(e.right, env, ctx)
            q = rat_of(b)
            if not q.is_const():
                raise Und("symbolic exponent")
            k = q.const_value()
            return pw_un(as_pw(a), lambda r: r.powq(k))
        b = self.ev(e.right, env, ctx)
        if isinstance(a, StrV) and isinstance(b, StrV) and isinstance(e.op, ast.Add):
            return StrV(a.s + b.s)
        if (isinstance(a, SymArr) or isinstance(b, SymArr)) and isinstance(e.op, (ast.Add, ast.Sub, ast.Mult)):
            if all(isinstance(x, (SymArr, PW, Rat)) for x in (a, b)):
                at = lambda x, i: x.index(i) if isinstance(x, SymArr) else rat_of(x)
                op = {ast.Add: lambda x, y: x + y, ast.Sub: lambda x, y: x - y, ast.Mult: lambda x, y: x * y}[type(e.op)]
                return ElemArr(lambda i, a=a, b=b: op(at(a, i), at(b, i)), ast.unparse(e))
        a, b = as_pw(a), as_pw(b)
        if isinstance(e.op, ast.Add):
            return pw_bin(a, b, lambda x, y: x + y)
        if isinstance(e.op, ast.Sub):
            return pw_bin(a, b, lambda x, y: x - y)
        if isinstance(e.op, ast.Mult):
            return pw_bin(a, b, lambda x, y: x * y)
        if isinstance(e.op, ast.Div):
            if self.trace_div:
                self.divisions.append((e, a, b, "/".join(self.call_stack)))
            return pw_bin(a, b, lambda x, y: x / y)
        raise Und(f"operator {type(e.op).__name__}")

    def key_of(self, e, env, ctx) -> str:
        v = self.ev(e, env, ctx)
        if isinstance(v, StrV):
            return v.s
        raise Und("non-string key")

    def ev_JoinedStr(self, e, env, ctx):
        out = ""
        for v in e.values:
            if isinstance(v, ast.Constant):
                out += str(v.value)
            elif isinstance(v, ast.FormattedValue):
                x = self.ev(v.value, env, ctx)
                if isinstance(x, StrV):
                    out += x.s
                else:
                    raise Und("f-string part")
        return StrV(out)

    def ev_Subscript(self, e, env, ctx):
        for h in self.sub_hooks:
            r = h(self, e, env, ctx)
            if r is not None:
                return r
        base = self.ev(e.value, env, ctx) if not isinstance(e.value, ast.Name) or e.value.id in env else None
        if base is None:
            # free dictionary-like name: opaque atom keyed by normalised key
            try:
                k = self.key_of(e.slice, env, ctx)
            except Und:
                k = ast.unparse(e.slice)
            return PW.of(Rat.atom(f"{e.value.id}[{k}]"))
        if isinstance(base, SymArr):
            return PW.of(base.index(rat_of(self.ev(e.slice, env, ctx))))
        if isinstance(base, SymDict):
            return base.get(self.key_of(e.slice, env, ctx))
        if isinstance(base, dict):
            k = self.key_of(e.slice, env, ctx)
            if k not in base:
                raise Und(f"key {k} not in dict value")
            return base[k]
        if isinstance(base, tuple):
            i = rat_of(self.ev(e.slice, env, ctx))
            if i.is_const():
                return base[int(i.const_value())]
        if isinstance(base, PW):
            sl = e.slice
            # broadcasting / whole-array slices keep the generic element; a *constant* position picks one
            # particular element, which is a different quantity (x[0] is not "the element of this compartment")
            if isinstance(sl, ast.Constant) and isinstance(sl.value, int) or \
                    (isinstance(sl, ast.UnaryOp) and isinstance(sl.operand, ast.Constant)):
                r = base.single()
                if r is None:
                    raise Und("constant subscript of a piecewise value")
                return PW.of(Rat.atom(f"({r})@[{ast.unparse(sl)}]"))
            if isinstance(sl, (ast.Slice, ast.Tuple)) or (isinstance(sl, ast.Constant) and sl.value is None):
                return base
            return base
        raise Und("subscript")

    def ev_Tuple(self, e, env, ctx):
        out = []
        for x in e.elts:
            if isinstance(x, ast.Starred):   # (a, *f(v)): the elements of the starred tuple are spliced in
                v = self.ev(x.value, env, ctx)
                if not isinstance(v, (tuple, list)):
                    raise Und("star of non-tuple in a display")
                out += list(v)
            else:
                out.append(self.ev(x, env, ctx))
        return tuple(out)

    ev_List = ev_Tuple

    def ev_Dict(self, e, env, ctx):
        return {self.key_of(k, env, ctx): self.ev(v, env, ctx) for k, v in zip(e.keys, e.values)}

    def _comp_envs(self, gens, env, ctx):
        """Environments of a comprehension over enumerable values (tables the code builds itself)."""
        if not gens:
            yield env
            return
        g = gens[0]
        it = self.ev(g.iter, env, ctx)
        if isinstance(it, dict):
            it = tuple(StrV(k) for k in it)
        if not isinstance(it, tuple):
            raise Und("comprehension over a non-enumerable value")
        for el in it:
            e2 = dict(env)
            self.assign(g.target, el, e2, ctx)
            if all(self.test(c, e2, ctx) is True for c in g.ifs) if g.ifs else True:
                yield from self._comp_envs(gens[1:], e2, ctx)

    def ev_DictComp(self, e, env, ctx):
        return {self.key_of(e.key, e2, ctx): self.ev(e.value, e2, ctx) for e2 in self._comp_envs(e.generators, env, ctx)}

    def ev_ListComp(self, e, env, ctx):
        return tuple(self.ev(e.elt, e2, ctx) for e2 in self._comp_envs(e.generators, env, ctx))

    def ev_Attribute(self, e, env, ctx):
        base = self.ev(e.value, env, ctx) if not isinstance(e.value, ast.Name) or e.value.id in env else None
        if isinstance(base, ObjV):
            if e.attr in base.attrs:
                return base.attrs[e.attr]
            if e.attr == "_name":
                return StrV("«name»")
            if self.repo.has_method(base.cls, e.attr):
                return BoundV(self.repo.method(base.cls, e.attr), base)
            # a class-level constant (tuple of gate names, a default ...): evaluate its defining expression
            for c_ in self.repo.mro(base.cls):
                if e.attr in c_.attrs:
                    dflt = c_.attrs[e.attr]
                    if isinstance(dflt, ast.Constant) and dflt.value is None:
                        break  # a placeholder that every instance overwrites in __init__
                    try:
                        return self.ev(c_.attrs[e.attr], {}, dict(ctx, mod=self.repo.mods[c_.file]))
                    except Und:
                        break
            return PW.of(Rat.atom(f"self.{e.attr}"))
        txt = ast.unparse(e)
        if txt in ("jnp.pi", "np.pi", "math.pi"):
            return PW.of(Rat.atom("pi"))
        if base is None and isinstance(e.value, ast.Name):
            return PW.of(Rat.atom(txt))
        raise Und(f"attribute {txt}")

    def ev_IfExp(self, e, env, ctx):
        t = self.test(e.test, env, ctx)
        if t is True:
            return self.ev(e.body, env, ctx)
        if t is False:
            return self.ev(e.orelse, env, ctx)
        raise Und("undecidable conditional expression")

    def test(self, t, env, ctx) -> Optional[bool]:
        if isinstance(t, ast.Compare) and len(t.ops) == 1 and isinstance(t.ops[0], (ast.Is, ast.IsNot)):
            try:
                l = self.ev(t.left, env, ctx)
                r = self.ev(t.comparators[0], env, ctx)
            except Und:
                return None
            if isinstance(t.ops[0], (ast.Is, ast.IsNot)):
                if isinstance(r, NoneV):
                    res = isinstance(l, NoneV)
                    return res if isinstance(t.ops[0], ast.Is) else not res
        if isinstance(t, ast.UnaryOp) and isinstance(t.op, ast.Not):
            r = self.test(t.operand, env, ctx)
            return None if r is None else not r
        return None

    # -- calls -------------------------------------------------------------------------
    def eval_args(self, call: ast.Call, env, ctx):
        args = []
        for a in call.args:
            if isinstance(a, ast.Starred):
                v = self.ev(a.value, env, ctx)
                if not isinstance(v, tuple):
                    raise Und("star of non-tuple")
                args += list(v)
            else:
                args.append(self.ev(a, env, ctx))
        kwargs = {}
        for k in call.keywords:
            if k.arg is None:
                raise Und("**kwargs")
            kwargs[k.arg] = self.ev(k.value, env, ctx)
        return args, kwargs

    def ev_Call(self, e, env, ctx):
        f = e.func
        # vmap(f, in_axes=...)(args): transparent
        if isinstance(f, ast.Call) and ast.unparse(f.func) in ("vmap", "jax.vmap") and f.args:
            inner = ast.Call(func=f.args[0], args=e.args, keywords=e.keywords)
            ast.copy_location(inner, e)
            return self.ev_Call(inner, env, ctx)
        name = f.attr if isinstance(f, ast.Attribute) else (f.id if isinstance(f, ast.Name) else None)
        if name is None and isinstance(f, ast.Subscript):
            name = "«subscript»"
        if name is None and isinstance(f, ast.Call):
            # the callee is itself computed:  getattr(self, f"{gate}_gate")(v)
            fv = self.ev(f, env, ctx)
            if isinstance(fv, BoundV):
                args, kwargs = self.eval_args(e, env, ctx)
                return self.call(fv.fi, args, kwargs, fv.selfv)
            raise Und("computed callee")
        if name is None:
            raise Und("callee")
        if isinstance(f, ast.Name) and f.id in ("zip", "enumerate", "list", "tuple", "reversed") and f.id not in env and \
                self._resolve_repo(f.id, ctx) is None and e.args and not e.keywords:
            vals = [self.ev(a_, env, ctx) for a_ in e.args]
            vals = [tuple(StrV(k) for k in v_) if isinstance(v_, dict) else v_ for v_ in vals]
            if all(isinstance(v_, tuple) for v_ in vals):
                if f.id == "zip":
                    return tuple(tuple(x) for x in zip(*vals))
                if f.id == "enumerate" and len(vals) == 1:
                    return tuple((PW.of(Rat.const(i_)), x) for i_, x in enumerate(vals[0]))
                if f.id in ("list", "tuple") and len(vals) == 1:
                    return vals[0]
                if f.id == "reversed" and len(vals) == 1:
                    return tuple(reversed(vals[0]))
            if f.id not in self.PRIMS:
                raise Und(f"call {f.id}")
        if isinstance(f, ast.Name) and f.id == "getattr" and len(e.args) in (2, 3) and "getattr" not in env:
            obj = self.ev(e.args[0], env, ctx)
            nm = self.ev(e.args[1], env, ctx)
            if isinstance(obj, ObjV) and isinstance(nm, StrV):
                if nm.s in obj.attrs:
                    return obj.attrs[nm.s]
                if self.repo.has_method(obj.cls, nm.s):
                    return BoundV(self.repo.method(obj.cls, nm.s), obj)
            raise Und("getattr")
        root = None
        if isinstance(f, ast.Attribute):
            r = f.value
            while isinstance(r, ast.Attribute):
                r = r.value
            root = r.id if isinstance(r, ast.Name) else None

        # opaque overrides (e.g. helper already proved equal to c*exprel(u))
        if name in self.opaque_calls and not (isinstance(f, ast.Attribute) and root in self.NUMPY_ROOTS):
            args, kwargs = self.eval_args(e, env, ctx)
            return self.opaque_calls[name](self, args, kwargs)

        # numeric primitives
        if (root in self.NUMPY_ROOTS or isinstance(f, ast.Name)) and name in self.PRIMS:
            if isinstance(f, ast.Name) and self._resolve_repo(f.id, ctx) is not None:
                pass  # a repository function shadows the primitive name
            else:
                args, kwargs = self.eval_args(e, env, ctx)
                return self.PRIMS[name](self, args, kwargs, e)

        # super().m(...)
        if (
            isinstance(f, ast.Attribute)
            and isinstance(f.value, ast.Call)
            and isinstance(f.value.func, ast.Name)
            and f.value.func.id == "super"
        ):
            selfv = env.get("self")
            cls = ctx.get("defining_cls")
            if not isinstance(selfv, ObjV) or cls is None:
                raise Und("super() outside a method")
            mro = self.repo.mro(cls)[1:]
            for c in mro:
                if name in c.methods:
                    args, kwargs = self.eval_args(e, env, ctx)
                    return self.call(c.methods[name], args, kwargs, selfv)
            if name == "__init__":
                return NONE
            raise Und(f"super().{name} not found")

        # self.method(...)
        if isinstance(f, ast.Attribute) and isinstance(f.value, ast.Name) and f.value.id == "self":
            selfv = env.get("self")
            cls = selfv.cls if isinstance(selfv, ObjV) else ctx.get("cls")
            if cls and self.repo.has_method(cls, name):
                args, kwargs = self.eval_args(e, env, ctx)
                return self.call(self.repo.method(cls, name), args, kwargs,
                                 selfv if isinstance(selfv, ObjV) else ObjV(cls))
            raise Und(f"self.{name}")

        # a function defined locally (helper closure)
        if isinstance(f, ast.Name) and isinstance(env.get(f.id), ClosureV):
            cl = env[f.id]
            if len(self.call_stack) >= self.max_depth:
                raise Und("inlining depth exceeded")
            args, kwargs = self.eval_args(e, env, ctx)
            a_ = cl.node.args
            names = [x.arg for x in a_.posonlyargs + a_.args]
            if len(args) > len(names) or a_.vararg or a_.kwarg:
                raise Und("arguments of a local function")
            e2 = dict(cl.env)
            for nm, v_ in zip(names, args):
                e2[nm] = v_
            for k_, v_ in kwargs.items():
                e2[k_] = v_
            for nm, d_ in zip(names[len(names) - len(a_.defaults):], a_.defaults):
                if nm not in e2 or (nm not in kwargs and names.index(nm) >= len(args) and nm in cl.env and nm not in kwargs):
                    e2[nm] = self.ev(d_, cl.env, cl.ctx)
            self.call_stack.append("<local>." + cl.node.name)
            try:
                r = self.run_body(cl.node.body, e2, cl.ctx)
            finally:
                self.call_stack.pop()
            return NONE if r is _NORETURN else r
        # a bound method held in a local variable / table:  rates = self.m_gate; rates(v)
        if isinstance(f, ast.Name) and isinstance(env.get(f.id), BoundV):
            b = env[f.id]
            args, kwargs = self.eval_args(e, env, ctx)
            return self.call(b.fi, args, kwargs, b.selfv)
        if isinstance(f, ast.Subscript):
            try:
                b = self.ev(f, env, ctx)
            except Und:
                b = None
            if isinstance(b, BoundV):
                args, kwargs = self.eval_args(e, env, ctx)
                return self.call(b.fi, args, kwargs, b.selfv)

        # method call on an object value (transform.forward(x))
        if isinstance(f, ast.Attribute):
            try:
                recv = self.ev(f.value, env, ctx) if not (isinstance(f.value, ast.Name) and f.value.id not in env) else None
            except Und:
                recv = None
            if isinstance(recv, dict) and not e.args and not e.keywords:
                # concrete dictionaries built by the code itself (a table of gates): enumerable in insertion order
                if name == "items":
                    return tuple((StrV(k), v) for k, v in recv.items())
                if name == "keys":
                    return tuple(StrV(k) for k in recv)
                if name == "values":
                    return tuple(recv.values())
            if name in ("to_numpy", "astype", "to_list", "tolist", "copy") and isinstance(recv, (PW, SymArr)):
                return recv
            if isinstance(recv, ObjV) and self.repo.has_method(recv.cls, name):
                args, kwargs = self.eval_args(e, env, ctx)
                return self.call(self.repo.method(recv.cls, name), args, kwargs, recv)

        # repository function
        if isinstance(f, ast.Name):
            fi = self._resolve_repo(f.id, ctx)
            if fi is not None:
                args, kwargs = self.eval_args(e, env, ctx)
                return self.call(fi, args, kwargs)
        raise Und(f"call {ast.unparse(f)}")

    def _resolve_repo(self, name, ctx):
        mi = ctx.get("mod")
        if mi is None:
            return None
        r = self.repo.resolve_name(mi, name)
        from .core import FuncInfo

        return r if isinstance(r, FuncInfo) else None

    # -- primitives ----------------------------------------------------------------------
    def _p_exp(self, args, kw, node):
        return pw_un(as_pw(args[0]), lambda r: self.atoms.exp(r))

    def _p_log(self, args, kw, node):
        return pw_un(as_pw(args[0]), lambda r: self.atoms.log(r))

    def _p_log1p(self, args, kw, node):
        return pw_un(as_pw(args[0]), lambda r: self.atoms.log(ONE + r))

    def _p_expm1(self, args, kw, node):
        return pw_un(as_pw(args[0]), lambda r: self.atoms.exp(r) - ONE)

    def _p_sigmoid(self, args, kw, node):
        # jax.nn.sigmoid(x) = 1 / (1 + exp(-x))
        return pw_un(as_pw(args[0]), lambda r: ONE / (ONE + self.atoms.exp(-r)))

    def _p_softplus(self, args, kw, node):
        # jax.nn.softplus(x) = log(1 + exp(x))
        return pw_un(as_pw(args[0]), lambda r: self.atoms.log(ONE + self.atoms.exp(r)))

    def _p_logaddexp(self, args, kw, node):
        return pw_bin(as_pw(args[0]), as_pw(args[1]), lambda a, b: self.atoms.log(self.atoms.exp(a) + self.atoms.exp(b)))

    def _p_tanh(self, args, kw, node):
        return pw_un(as_pw(args[0]), lambda r: self.atoms.odd("tanh", r))

    def _p_abs(self, args, kw, node):
        return pw_un(as_pw(args[0]), lambda r: self.atoms.even("abs", r))

    def _p_sqrt(self, args, kw, node):
        return pw_un(as_pw(args[0]), lambda r: self.atoms._opaque("sqrt", r))

    def _p_where(self, args, kw, node):
        c, a, b = args[0], as_pw(args[1]), as_pw(args[2])
        if not isinstance(c, GuardV):
            raise Und("where on an unrecognised condition")
        out = []
        for (cc, r) in a.on(frozenset({(c.gid, True)})).pieces:
            out.append((cc | {(c.gid, True)}, r))
        for (cc, r) in b.on(frozenset({(c.gid, False)})).pieces:
            out.append((cc | {(c.gid, False)}, r))
        return PW(out)

    def _clip_transparent(self):
        """Saturation is looked through only inside the documented overflow guard `save_exp`
        (whose clipped exponents are checked separately, kin.foreign_saturation / c04.clipped_exponentials);
        a clip / maximum / minimum anywhere else is part of the value and stays visible as an opaque atom."""
        # (a local helper inside save_exp is still inside save_exp)
        inner = [str(f_) for f_ in self.call_stack if not str(f_).startswith("<local>.")]
        return self.atoms.clip_transparent and bool(inner) and inner[-1].endswith("save_exp")

    def _p_clip(self, args, kw, node):
        x = as_pw(args[0])
        lo = kw.get("min", kw.get("a_min", args[1] if len(args) > 1 else None))
        hi = kw.get("max", kw.get("a_max", args[2] if len(args) > 2 else None))
        self.atoms.clip_sites.append(("clip", x, tuple(self.call_stack), node))
        if self._clip_transparent():
            return x
        return pw_un(x, lambda r: self.atoms._opaque("clip", r))

    def _p_maximum(self, args, kw, node):
        self.atoms.clip_sites.append(("maximum", as_pw(args[0]), tuple(self.call_stack), node))
        if self._clip_transparent():
            return as_pw(args[0])
        return pw_bin(as_pw(args[0]), as_pw(args[1]), lambda a, b: self.atoms._opaque("max", a - b) + b)

    def _p_minimum(self, args, kw, node):
        self.atoms.clip_sites.append(("minimum", as_pw(args[0]), tuple(self.call_stack), node))
        if self._clip_transparent():
            return as_pw(args[0])
        return pw_bin(as_pw(args[0]), as_pw(args[1]), lambda a, b: self.atoms._opaque("min", a - b) + b)

    def _p_identity(self, args, kw, node):
        return args[0]

    def _p_ones_like(self, args, kw, node):
        return PW.of(ONE)

    def _p_zeros_like(self, args, kw, node):
        return PW.of(ZERO)

    PRIMS = {
        "sigmoid": _p_sigmoid, "softplus": _p_softplus, "logaddexp": _p_logaddexp,
        "exp": _p_exp, "expm1": _p_expm1, "log": _p_log, "log1p": _p_log1p, "tanh": _p_tanh, "abs": _p_abs,
        "sqrt": _p_sqrt, "where": _p_where, "clip": _p_clip, "minimum": _p_minimum, "maximum": _p_maximum,
        "asarray": _p_identity, "array": _p_identity, "float": _p_identity,
        "ones_like": _p_ones_like, "zeros_like": _p_zeros_like,
    }

    def ev_Compare(self, e, env, ctx):
        """Recognised guard forms: abs(u) < eps, u < eps, u > eps (eps constant)."""
        if len(e.ops) != 1:
            raise Und("chained comparison")
        op = e.ops[0]
        l = rat_of(self.ev(e.left, env, ctx))
        r = rat_of(self.ev(e.comparators[0], env, ctx))
        if isinstance(op, (ast.Lt, ast.LtE)):
            lhs, bound, flip = l, r, False
        elif isinstance(op, (ast.Gt, ast.GtE)):
            lhs, bound, flip = r, l, False
        else:
            raise Und("comparison operator")
        # abs(u) < eps
        st = lhs.n.single_term()
        if lhs.d.is_const() and st and len(st[0]) == 1 and st[0][0][0].startswith("abs#") and st[0][0][1] == 1:
            u = self.atoms.arg_of(st[0][0][0]) * Rat.const(st[1] / lhs.d.const_value())
            return GuardV(self.guard_id("abs<", u, bound), "abs<", u, bound)
        return GuardV(self.guard_id("<", lhs, bound), "<", lhs, bound)

    # -- function bodies ---------------------------------------------------------------
    def call(self, fi, args, kwargs=None, selfv: ObjV = None):
        kwargs = kwargs or {}
        if len(self.call_stack) >= self.max_depth:
            raise Und("inlining depth exceeded")
        node = fi.node
        params = [a.arg for a in node.args.posonlyargs + node.args.args]
        defaults = node.args.defaults
        env = {}
        ctx = {"mod": self.repo.mods[fi.file], "cls": fi.cls, "defining_cls": fi.cls}
        if fi.cls and not fi.is_static and params and params[0] == "self":
            env["self"] = selfv if selfv is not None else ObjV(fi.cls)
            if selfv is not None:
                ctx["cls"] = selfv.cls
            params = params[1:]
            nd = len(defaults)
        elif fi.cls and not fi.is_static and params:
            # methods declared without self (Synapse base class signatures)
            pass
        if len(args) > len(params):
            raise Und(f"too many arguments for {fi.qual}")
        for p, a in zip(params, args):
            env[p] = a
        for k, v in kwargs.items():
            if k not in params:
                raise Und(f"unexpected keyword {k} for {fi.qual}")
            env[k] = v
        # defaults
        if defaults:
            for p, d in zip(params[-len(defaults):], defaults):
                if p not in env:
                    env[p] = self.ev(d, {}, ctx)
        for a, d in zip(node.args.kwonlyargs, node.args.kw_defaults):
            if a.arg in kwargs:
                env[a.arg] = kwargs[a.arg]
            elif d is not None:
                env[a.arg] = self.ev(d, {}, ctx)
        missing = [p for p in params if p not in env]
        if missing:
            raise Und(f"missing arguments {missing} for {fi.qual}")
        self.call_stack.append(fi.qual)
        try:
            r = self.run_body(node.body, env, ctx)
        finally:
            self.call_stack.pop()
        return NONE if r is _NORETURN else r

    def run_body(self, stmts, env, ctx):
        for st in stmts:
            if isinstance(st, ast.Expr):
                if isinstance(st.value, ast.Call):
                    # super().__init__() etc. evaluated for their effect on self
                    try:
                        self.ev(st.value, env, ctx)
                    except Und:
                        if "super" in ast.unparse(st.value):
                            raise
                continue
            if isinstance(st, ast.Assign):
                v = self.ev(st.value, env, ctx)
                for t in st.targets:
                    self.assign(t, v, env, ctx)
                continue
            if isinstance(st, ast.AnnAssign):
                if st.value is not None:
                    self.assign(st.target, self.ev(st.value, env, ctx), env, ctx)
                continue
            if isinstance(st, ast.AugAssign):
                cur = self.ev(st.target, env, ctx)
                val = self.ev(st.value, env, ctx)
                ops = {ast.Add: lambda x, y: x + y, ast.Sub: lambda x, y: x - y,
                       ast.Mult: lambda x, y: x * y, ast.Div: lambda x, y: x / y}
                if type(st.op) not in ops:
                    raise Und("augmented operator")
                try:
                    res = pw_bin(as_pw(cur), as_pw(val), ops[type(st.op)])
                except Und:
                    # `x op= v` is `x = x op v`: values that are not plain numbers (whole arrays of the array-program evaluator)
                    # go through the evaluator's own binary operation
                    tgt = ast.parse(ast.unparse(st.target), mode="eval").body
                    res = self.ev(ast.copy_location(ast.BinOp(left=tgt, op=st.op, right=st.value), st), env, ctx)
                self.assign(st.target, res, env, ctx)
                continue
            if isinstance(st, ast.Return):
                return self.ev(st.value, env, ctx) if st.value is not None else NONE
            if isinstance(st, ast.If):
                t = self.test(st.test, env, ctx)
                if t is None:
                    # a branch that only raises is a guard, not a value path
                    if all(isinstance(x, ast.Raise) for x in st.body) and not st.orelse:
                        continue
                    raise Und(f"undecidable branch `{ast.unparse(st.test)[:60]}`")
                r = self.run_body(st.body if t else st.orelse, env, ctx)
                if r is not _NORETURN:
                    return r
                continue
            if isinstance(st, (ast.Pass, ast.Assert)):
                continue
            if isinstance(st, ast.FunctionDef):
                env[st.name] = ClosureV(st, env, ctx)
                continue
            if isinstance(st, ast.For):
                # only loops over a tuple/list value of abstract elements
                it = self.ev(st.iter, env, ctx)
                if isinstance(it, tuple):
                    for el in it:
                        self.assign(st.target, el, env, ctx)
                        r = self.run_body(st.body, env, ctx)
                        if r is not _NORETURN:
                            return r
                    continue
                raise Und("loop over a non-enumerable value")
            raise Und(f"statement {type(st).__name__}")
        return _NORETURN

    def assign(self, t, v, env, ctx):
        if isinstance(t, ast.Name):
            env[t.id] = v
        elif isinstance(t, (ast.Tuple, ast.List)):
            if not isinstance(v, tuple) or len(v) != len(t.elts):
                raise Und("tuple unpacking")
            for tt, vv in zip(t.elts, v):
                self.assign(tt, vv, env, ctx)
        elif isinstance(t, ast.Attribute) and isinstance(t.value, ast.Name) and isinstance(env.get(t.value.id), ObjV):
            env[t.value.id].attrs[t.attr] = v
        elif isinstance(t, ast.Subscript) and isinstance(t.value, ast.Name) and isinstance(env.get(t.value.id), dict):
            env[t.value.id][self.key_of(t.slice, env, ctx)] = v
        else:
            raise Und(f"assignment target {ast.unparse(t)[:40]}")


class GuardV:
    def __init__(self, gid, kind, lhs, bound):
        self.gid, self.kind, self.lhs, self.bound = gid, kind, lhs, bound


class _NoReturn:
    pass


_NORETURN = _NoReturn()


# --------------------------------------------------------------------------------------
# reference expression language (the oracle side)


def parse_ref(ev: Evaluator, text: str, env: dict = None) -> Rat:
    """Evaluate a reference formula written in the checker's own syntax."""
    tree = ast.parse(text.replace("^", "**"), mode="eval").body
    e2 = dict(env or {})
    return rat_of(ev.ev(tree, e2, {"mod": None, "cls": None}))


# --------------------------------------------------------------------------------------
# sign analysis (E2-sign)


def poly_positive(p: Poly, positive_atoms) -> Optional[bool]:
    """True if every coefficient is > 0 and every atom is positive; False if every
    coefficient is < 0 (negative); None otherwise."""
    if p.is_zero():
        return None
    if not all(a in positive_atoms for a in p.atoms()):
        return None
    if all(v > 0 for v in p.t.values()):
        return True
    if all(v < 0 for v in p.t.values()):
        return False
    return None


def rat_sign(r: Rat, positive_atoms) -> Optional[int]:
    """+1 / -1 if the form is positive / negative for all positive atom values."""
    sn, sd = poly_positive(r.n, positive_atoms), poly_positive(r.d, positive_atoms)
    if sn is None or sd is None:
        return None
    return 1 if sn == sd else -1
