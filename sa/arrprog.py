"""Abstract interpretation of array programs built from gathers `X[I]`, masks `X[sel]`
and functional scatters `X.at[I].add/set(V)` (JAX style).

Arrays are abstract values `ArrV(role, sel)` that remember their *contribution table*
(initial fill + list of (index descriptor, op, value form)).  Row selectors over the
compartment-edge table are `SelV(types, cmp)`.  Index arrays are `IdxV(desc)` with a
canonical descriptor.  Scalar values gathered from arrays are atoms `role{sel}@index` of
the exact rational algebra (sa.algebra), so values scattered are canonical forms.
"""
from __future__ import annotations

import ast
from typing import List, Optional

from .algebra import (Evaluator, PW, Rat, Und, rat_of, as_pw, ONE, ZERO, NONE, NoneV, ObjV, StrV)


class SelV:
    def __init__(self, types=None, cmp=None):
        self.types = frozenset(types) if types is not None else None
        self.cmp = cmp

    def desc(self):
        t = "*" if self.types is None else ",".join(str(x) for x in sorted(self.types))
        return "{" + t + (";" + self.cmp if self.cmp else "") + "}"

    def combine(self, o: "SelV") -> "SelV":
        types = self.types if o.types is None else (o.types if self.types is None else self.types & o.types)
        if self.cmp and o.cmp and self.cmp != o.cmp:
            raise Und("conflicting selectors")
        return SelV(types, self.cmp or o.cmp)


class IdxV:
    def __init__(self, base, sel: "SelV" = None):
        self.base, self.sel = base, sel

    @property
    def desc(self):
        return self.base + (self.sel.desc() if self.sel else "")

    def __repr__(self):
        return f"IdxV({self.desc})"


class ArrV:
    def __init__(self, role, sel: SelV = None, kind="data", init=None, updates=None, scale: Rat = None):
        self.role, self.sel, self.kind = role, sel, kind
        self.init = init
        self.updates = list(updates or [])
        self.scale = scale  # elementwise factor applied to a data array (e.g. -dt * g)

    def with_update(self, idx, op, val, node=None):
        return ArrV(self.role, self.sel, self.kind, self.init, self.updates + [(idx, op, val, node)], self.scale)

    def name(self):
        return self.role + (self.sel.desc() if self.sel else "")


class ArrEvaluator(Evaluator):
    """Evaluator extended with abstract arrays.  `env` binds names to ArrV/IdxV/SelV/PW."""

    def __init__(self, repo, **kw):
        super().__init__(repo, **kw)
        self.idx_name = "idx"
        self.notes: List[str] = []

    # ---- selectors ----------------------------------------------------------------------
    def ev_Compare(self, e, env, ctx):
        if len(e.ops) == 1:
            l = self._try(e.left, env, ctx)
            r = self._try(e.comparators[0], env, ctx)
            op = e.ops[0]
            if isinstance(l, ArrV) and l.role == "types" and isinstance(op, ast.Eq) and isinstance(r, PW):
                q = rat_of(r)
                if q.is_const():
                    return SelV({int(q.const_value())})
            # whole index columns compare like selected ones: `sources > sinks` is the selector {*;src>snk}
            if isinstance(l, ArrV) and l.kind == "index":
                l = IdxV(l.role, l.sel)
            if isinstance(r, ArrV) and r.kind == "index":
                r = IdxV(r.role, r.sel)
            if isinstance(l, IdxV) and isinstance(r, IdxV) and isinstance(op, (ast.Gt, ast.Lt)):
                # sources{sel} > sinks{sel}
                ln, rn = l.base, r.base
                sel_l = l.sel.desc() if l.sel else ""
                sel_r = r.sel.desc() if r.sel else ""
                if {ln, rn} == {"sources", "sinks"} and sel_l == sel_r:
                    gt = isinstance(op, ast.Gt)
                    src_gt = gt if ln == "sources" else not gt
                    return SelV(l.sel.types if l.sel else None, "src>snk" if src_gt else "src<snk")
        return super().ev_Compare(e, env, ctx)

    def _try(self, e, env, ctx):
        try:
            return self.ev(e, env, ctx)
        except Und:
            return None

    # ---- subscripts ---------------------------------------------------------------------
    def ev_Subscript(self, e, env, ctx):
        base = self._try(e.value, env, ctx)
        if isinstance(base, (ArrV, IdxV)):
            # 2-d column selection  cil[:, 0]
            if isinstance(e.slice, ast.Tuple) and len(e.slice.elts) == 2 and isinstance(e.slice.elts[0], ast.Slice) \
                    and isinstance(base, IdxV):
                c_ = e.slice.elts[1]
                k_ = c_.value if isinstance(c_, ast.Constant) else (
                    -c_.operand.value if (isinstance(c_, ast.UnaryOp) and isinstance(c_.op, ast.USub) and isinstance(c_.operand, ast.Constant)) else None)
                if isinstance(k_, int):
                    # column 0 of the block of a branch is its first slot; the LAST column is the end of the padded block, which is
                    # the last compartment only for a branch that is not padded -- kept distinct from last(...)
                    if k_ == 0 and base.desc.startswith("branch(") and base.sel is None:
                        return IdxV("first(" + base.desc[len("branch("):])
                    return IdxV(f"{base.desc}.col{k_}")
            sl = self._try(e.slice, env, ctx)
            if isinstance(sl, SelV):
                if isinstance(base, ArrV):
                    sel = base.sel.combine(sl) if base.sel else sl
                    if base.kind == "index":
                        return IdxV(base.role, sel)
                    return ArrV(base.role, sel, base.kind, scale=base.scale)
                return IdxV(base.base, base.sel.combine(sl) if base.sel else sl)
            if isinstance(sl, IdxV) and isinstance(base, ArrV):
                v = Rat.atom(f"{base.name()}@{sl.desc}")
                if base.scale is not None:
                    v = v * base.scale
                return PW.of(v)
            if isinstance(sl, PW) and isinstance(base, ArrV) and rat_of(sl).is_const():
                c = int(rat_of(sl).const_value())
                return PW.of(Rat.atom(f"{base.name()}@[{c}]"))
            if isinstance(base, ArrV) and isinstance(e.slice, ast.Tuple):
                return PW.of(Rat.atom(f"{base.name()}@[{ast.unparse(e.slice)}]"))
            raise Und(f"subscript of array {ast.unparse(e)[:50]}")
        return super().ev_Subscript(e, env, ctx)

    # ---- attribute: X.at -----------------------------------------------------------------
    def ev_Attribute(self, e, env, ctx):
        if e.attr == "at":
            base = self._try(e.value, env, ctx)
            if isinstance(base, ArrV):
                return ("at", base)
        if isinstance(e.value, ast.Name) and e.value.id == self.idx_name and e.value.id in env:
            if e.attr in ("children_in_level", "parents_in_level", "root_inds", "branchpoint_group_inds"):
                return IdxV(f"idx.{e.attr}")
        return super().ev_Attribute(e, env, ctx)

    # ---- calls ----------------------------------------------------------------------------
    def ev_Call(self, e, env, ctx):
        f = e.func
        # X.at[I].add(V) / .set(V)
        if isinstance(f, ast.Attribute) and f.attr in ("add", "set") and isinstance(f.value, ast.Subscript) \
                and isinstance(f.value.value, ast.Attribute) and f.value.value.attr == "at":
            arr = self._try(f.value.value.value, env, ctx)
            if isinstance(arr, ArrV):
                ix = self._index_desc(f.value.slice, env, ctx)
                val = self.ev(e.args[0], env, ctx)
                if isinstance(val, ArrV):
                    v = Rat.atom(val.name() + "@each")
                    if val.scale is not None:
                        v = v * val.scale
                    val = PW.of(v)
                return arr.with_update(ix, f.attr, as_pw(val), e)
        # idx.mask / first / last / branch / lower / upper
        if isinstance(f, ast.Attribute) and isinstance(f.value, ast.Name) and f.value.id == self.idx_name \
                and f.value.id in env and f.attr in ("mask", "first", "last", "branch", "lower", "upper"):
            a = self.ev(e.args[0], env, ctx)
            if isinstance(a, ArrV) and a.kind == "index":
                a = IdxV(a.role, a.sel)
            if not isinstance(a, IdxV):
                raise Und("indexer applied to a non-index")
            return IdxV(f"{f.attr}({a.desc})")
        name = f.attr if isinstance(f, ast.Attribute) else (f.id if isinstance(f, ast.Name) else None)
        root = f.value.id if isinstance(f, ast.Attribute) and isinstance(f.value, ast.Name) else None
        if root in ("np", "jnp"):
            if name == "isin" and len(e.args) == 2:
                a = self._try(e.args[0], env, ctx)
                if isinstance(a, ArrV) and a.role == "types" and isinstance(e.args[1], (ast.List, ast.Tuple)):
                    return SelV({x.value for x in e.args[1].elts if isinstance(x, ast.Constant)})
            if name in ("ones", "zeros"):
                return ArrV(f"fresh", None, "data", init=name)
            if name in ("ones_like", "zeros_like"):
                return ArrV("fresh", None, "data", init=name.split("_")[0])
            if name in ("where", "nonzero", "flatnonzero") and len(e.args) == 1 and not e.keywords:
                # the positions where a row mask holds select what the mask selects: x[where(m)[0]] is x[m]
                m_ = self._try(e.args[0], env, ctx)
                if isinstance(m_, SelV):
                    return m_ if name == "flatnonzero" else (m_,)
            if name in ("concatenate", "hstack") and e.args and isinstance(e.args[0], (ast.List, ast.Tuple)):
                parts = [self.ev(x, env, ctx) for x in e.args[0].elts]
                if all(isinstance(p, ArrV) for p in parts):
                    return ArrV("concat(" + ",".join(p.name() for p in parts) + ")", None, "data")
            if name in ("reshape", "ravel", "asarray") and e.args:
                a = self._try(e.args[0], env, ctx)
                if isinstance(a, (ArrV, IdxV)):
                    return a
            if name == "stack" and e.args and isinstance(e.args[0], (ast.List, ast.Tuple)):
                return tuple(self.ev(x, env, ctx) for x in e.args[0].elts)
        if name == "len" and isinstance(f, ast.Name) and e.args:
            a = self._try(e.args[0], env, ctx)
            if isinstance(a, (ArrV, IdxV)):
                return PW.of(Rat.atom(f"len({a.name() if isinstance(a, ArrV) else a.desc})"))
        if isinstance(f, ast.Attribute) and f.attr in ("ravel", "reshape", "astype", "flatten"):
            a = self._try(f.value, env, ctx)
            if isinstance(a, (ArrV, IdxV)):
                return a
        return super().ev_Call(e, env, ctx)

    def _index_desc(self, sl, env, ctx) -> str:
        v = self._try(sl, env, ctx)
        if isinstance(v, IdxV):
            return v.desc
        if isinstance(v, ArrV) and v.kind == "index":
            return v.name()
        if isinstance(v, SelV):
            return v.desc()
        return "[" + ast.unparse(sl) + "]"

    # ---- arithmetic on whole arrays: scale factors ------------------------------------------
    def ev_BinOp(self, e, env, ctx):
        l = self._try(e.left, env, ctx)
        r = self._try(e.right, env, ctx)
        # row masks combine:  (types == 0) & (sources > sinks)  selects what  x[types == 0][(sources > sinks)[types == 0]]  selects
        if isinstance(e.op, ast.BitAnd) and isinstance(l, SelV) and isinstance(r, SelV):
            return l.combine(r)
        # ... and unite when both only select edge types:  (types == 0) | (types == 1)  is  isin(types, [0, 1])
        if isinstance(e.op, ast.BitOr) and isinstance(l, SelV) and isinstance(r, SelV) and not l.cmp and not r.cmp and \
                l.types is not None and r.types is not None:
            return SelV(l.types | r.types)
        # arithmetic on an index array: another index array, named by the expression (`first(b + 1) - 1` is not `last(b)` in a padded layout)
        if isinstance(e.op, (ast.Add, ast.Sub)):
            li = IdxV(l.role, l.sel) if isinstance(l, ArrV) and l.kind == "index" else l
            ri = IdxV(r.role, r.sel) if isinstance(r, ArrV) and r.kind == "index" else r
            if isinstance(li, IdxV) and isinstance(e.right, ast.Constant) and isinstance(e.right.value, int):
                return IdxV(f"({li.desc}{'+' if isinstance(e.op, ast.Add) else '-'}{e.right.value})") if e.right.value != 0 else li
            if isinstance(ri, IdxV) and isinstance(e.left, ast.Constant) and isinstance(e.left.value, int) and isinstance(e.op, ast.Add):
                return IdxV(f"({ri.desc}+{e.left.value})") if e.left.value != 0 else ri
        if isinstance(l, ArrV) or isinstance(r, ArrV):
            if isinstance(e.op, ast.Mult):
                arr, other = (l, r) if isinstance(l, ArrV) else (r, l)
                if isinstance(other, PW):
                    s = rat_of(other)
                    return ArrV(arr.role, arr.sel, arr.kind, arr.init, arr.updates,
                                s if arr.scale is None else arr.scale * s)
            if isinstance(l, ArrV) and isinstance(r, ArrV):
                # elementwise arithmetic of two whole arrays, element by element
                return pw_arith(e.op, PW.of(_elem(l)), PW.of(_elem(r)))
            if isinstance(l, ArrV) and isinstance(r, PW):
                return pw_arith(e.op, PW.of(_elem(l)), r)
            if isinstance(r, ArrV) and isinstance(l, PW):
                return pw_arith(e.op, l, PW.of(_elem(r)))
            raise Und("array arithmetic")
        return super().ev_BinOp(e, env, ctx)

    def ev_UnaryOp(self, e, env, ctx):
        v = self._try(e.operand, env, ctx)
        if isinstance(v, ArrV) and isinstance(e.op, ast.USub):
            m = Rat.const(-1)
            return ArrV(v.role, v.sel, v.kind, v.init, v.updates, m if v.scale is None else v.scale * m)
        return super().ev_UnaryOp(e, env, ctx)


def _elem(a: ArrV) -> Rat:
    v = Rat.atom(a.name() + "@each")
    return v * a.scale if a.scale is not None else v


def pw_arith(op, a: PW, b: PW) -> PW:
    from .algebra import pw_bin

    if isinstance(op, ast.Add):
        return pw_bin(a, b, lambda x, y: x + y)
    if isinstance(op, ast.Sub):
        return pw_bin(a, b, lambda x, y: x - y)
    if isinstance(op, ast.Mult):
        return pw_bin(a, b, lambda x, y: x * y)
    if isinstance(op, ast.Div):
        return pw_bin(a, b, lambda x, y: x / y)
    raise Und("operator")


def _parse_sel(s: str):
    s = s.strip("{}").split(";")[0]
    if s in ("*", ""):
        return None
    return frozenset(int(x) for x in s.split(","))
