"""Must-pass-through analysis over structured control flow (no CFG library needed).

`must_call(func_node, pred)` is True iff on every path from the function entry to a NORMAL exit (a `return` or the
end of the body; `raise` exits are error paths and exempt) a call satisfying `pred(ast.Call)` has been evaluated.
Loops may run zero times, so a call inside a loop body does not count for the code after the loop; short-circuit
operands, conditional expressions, comprehension bodies and nested functions/lambdas do not count either.
"""
from __future__ import annotations

import ast
from typing import Callable, Optional, Tuple


def _evaluated_calls(node):
    """Calls certainly evaluated when `node` (a statement's own expressions) is evaluated."""
    todo = [node]
    while todo:
        n = todo.pop()
        if isinstance(n, (ast.FunctionDef, ast.AsyncFunctionDef, ast.Lambda, ast.ClassDef)):
            continue
        if isinstance(n, ast.IfExp):
            todo.append(n.test)
            continue
        if isinstance(n, ast.BoolOp):
            todo.append(n.values[0])
            continue
        if isinstance(n, (ast.ListComp, ast.SetComp, ast.DictComp, ast.GeneratorExp)):
            todo.append(n.generators[0].iter)
            continue
        if isinstance(n, ast.Call):
            yield n
        todo.extend(ast.iter_child_nodes(n))


def _own_exprs(st):
    """Expression children of a statement that are evaluated when the statement starts (not its nested blocks)."""
    if isinstance(st, (ast.If, ast.While)):
        return [st.test]
    if isinstance(st, (ast.For, ast.AsyncFor)):
        return [st.iter]
    if isinstance(st, (ast.With, ast.AsyncWith)):
        return [i.context_expr for i in st.items]
    if isinstance(st, ast.Try):
        return []
    if isinstance(st, (ast.FunctionDef, ast.AsyncFunctionDef, ast.ClassDef)):
        return []
    return [st]


def _block(stmts, called: bool, pred) -> Tuple[Optional[bool], bool]:
    """(called at fall-through or None if the block never falls through, ok = no normal exit without the call)."""
    ok = True
    for st in stmts:
        for e in _own_exprs(st):
            if any(pred(c) for c in _evaluated_calls(e)):
                called = True
        if isinstance(st, ast.Return):
            return None, ok and called
        if isinstance(st, ast.Raise):
            return None, ok
        if isinstance(st, ast.If):
            c1, ok1 = _block(st.body, called, pred)
            c2, ok2 = _block(st.orelse, called, pred)
            ok = ok and ok1 and ok2
            if c1 is None and c2 is None:
                return None, ok
            called = (c1 if c2 is None else c2 if c1 is None else (c1 and c2))
        elif isinstance(st, (ast.For, ast.AsyncFor, ast.While)):
            _c, ok1 = _block(st.body, called, pred)
            _c2, ok2 = _block(st.orelse, called, pred)
            ok = ok and ok1 and ok2
        elif isinstance(st, (ast.With, ast.AsyncWith)):
            c1, ok1 = _block(st.body, called, pred)
            ok = ok and ok1
            if c1 is None:
                return None, ok
            called = c1
        elif isinstance(st, ast.Try):
            c1, ok1 = _block(st.body + st.orelse, called, pred)
            ok = ok and ok1
            outs = [c1]
            for h in st.handlers:
                ch, okh = _block(h.body, called, pred)
                ok = ok and okh
                outs.append(ch)
            outs = [o for o in outs if o is not None]
            if not outs:
                cf, okf = _block(st.finalbody, called, pred)
                return None, ok and okf
            called = all(outs)
            cf, okf = _block(st.finalbody, called, pred)
            ok = ok and okf
            if cf is None:
                return None, ok
            called = cf
    return called, ok


def must_call(func: ast.FunctionDef, pred: Callable[[ast.Call], bool]) -> bool:
    called, ok = _block(func.body, False, pred)
    if called is None and not any(isinstance(n, ast.Return) for n in ast.walk(func)):
        return False  # never exits normally (abstract method): nothing is established for its callers
    return ok and (called is None or called)


def first_gap(func: ast.FunctionDef, pred) -> Optional[ast.AST]:
    """A normal exit that can be reached without the call (for the report): the first `return` / conditional that
    skips it, else the function itself."""
    for n in ast.walk(func):
        if isinstance(n, ast.If):
            has = lambda b: any(pred(c) for s in b for c in ast.walk(s) if isinstance(c, ast.Call))
            if has(n.body) != has(n.orelse):
                return n
    for n in ast.walk(func):
        if isinstance(n, ast.Return):
            return n
    return func
