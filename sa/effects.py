"""Engine E5: effects (write sets) and aliases over the resolved call graph.

An *effect* is a store (attribute / subscript assignment, `del`, in-place method, `+=` on a
non-fresh container) attributed to the outermost non-fresh object it reaches: a parameter of
the function (mutation of a caller-owned object) or an attribute path rooted at the module
(`self`, `self.base`, `module`).  Effects are closed transitively: a callee's effect on its
parameter becomes an effect on whatever the caller passed, unless that argument is *fresh*
(`.copy()`, `dict(...)`, comprehension, literal, library constructor, result of a function
that returns fresh values).  Functions handed to scan/vmap receive fresh pytrees.
"""
from __future__ import annotations

import ast
from typing import Dict, List, Optional, Set, Tuple

from .core import FuncInfo, Repo, unparse
from .terms import Expander, T

MUTATORS = {"append", "extend", "insert", "pop", "remove", "clear", "update", "setdefault", "sort", "reverse",
            "popitem", "add", "discard"}
INPLACE_KW = {"drop", "rename", "fillna", "reset_index", "sort_values", "set_index"}
FRESH_METHODS = {"copy", "deepcopy", "to_dict", "to_numpy", "to_list", "tolist", "astype", "keys", "values", "items",
                 "groupby", "apply", "unique", "isin", "isna", "any", "all", "sum", "mean", "join", "rename", "drop",
                 "reshape", "ravel", "from_dict", "set", "add", "get", "T", "split", "format", "lower", "index",
                 "nunique", "rank", "sample", "duplicated", "to_frame", "transform", "size", "value_counts", "flatten",
                 "repeat", "reset_index", "set_index", "concat", "DataFrame"}
MODULE_ROOTS = {"self", "module", "pointer", "view", "cell", "net", "network", "pre", "post"}
MODULE_CLASSES = ["Module", "View", "Compartment", "Branch", "Cell", "Network"]
HOF = {"scan", "nested_checkpoint_scan", "_inner_nested_scan", "vmap", "jit", "checkpoint", "tree_map", "scan_fn",
       "checkpoint_fn"}


class Effect:
    def __init__(self, kind, root, path, fi, node, via=()):
        self.kind, self.root, self.path, self.fi, self.node, self.via = kind, root, path, fi, node, tuple(via)

    def key(self):
        return (self.kind, self.root, self.path)

    def describe(self):
        chain = " -> ".join([f.qual for f in self.via] + [self.fi.qual])
        return f"{self.root}{self.path} written in {chain} (`{unparse(self.node)[:70]}`)"


class Effects:
    def __init__(self, repo: Repo):
        self.repo = repo
        self._exp: Dict[str, Expander] = {}
        self._fresh_ret: Dict[str, Optional[bool]] = {}
        self._summary: Dict[str, List[Effect]] = {}
        self.calls_total = self.calls_resolved = self.calls_external = self.calls_unresolved = 0

    def expander(self, fi: FuncInfo) -> Expander:
        k = fi.file + ":" + fi.qual
        if k not in self._exp:
            if fi.parent is not None:
                pe = self.expander(fi.parent)
                self._exp[k] = pe.nested.get(fi.name) or Expander(self.repo, fi)
            else:
                self._exp[k] = Expander(self.repo, fi)
        return self._exp[k]

    # ---- freshness ---------------------------------------------------------------------
    def fresh(self, t: T, fi: FuncInfo, depth=0) -> bool:
        if depth > 25:
            return False
        op = t.op
        if op in ("const", "list", "tuple", "dict", "comp", "dictcomp", "fstr", "lambda", "cmp", "bool", "unary",
                  "slice", "localfn", "undef"):
            return True
        if op == "binop":
            if t.kw.get("aug") is not None:
                return self.fresh(t.args[0], fi, depth + 1)
            return True
        if op == "param":
            return False
        if op == "free":
            return True  # module-level name / import
        if op in ("ifexp",):
            return self.fresh(t.args[1], fi, depth + 1) and self.fresh(t.args[2], fi, depth + 1)
        if op == "phi":
            return all(self.fresh(a, fi, depth + 1) for a in t.args if a.op not in ("carried", "undef"))
        if op == "listacc":
            # a container filled with append / extend is the container it started as: fresh iff that one is
            return bool(t.args) and self.fresh(t.args[0], fi, depth + 1)
        if op == "elem":
            return self.fresh(t.args[0], fi, depth + 1)
        if op == "attr":
            # attribute of a fresh object is fresh; attributes of aliases alias
            if t.name in ("T", "shape", "index", "columns", "dtype", "values", "at", "loc", "iloc"):
                return True if t.name in ("shape", "dtype") else self.fresh(t.args[0], fi, depth + 1)
            return self.fresh(t.args[0], fi, depth + 1)
        if op == "sub":
            base = t.args[0]
            if base.op == "attr" and base.name in ("loc", "iloc"):
                return True  # a .loc read returns a copy
            if t.args[1].op in ("cmp", "unary", "slice") or (t.args[1].op == "tuple"):
                return True  # boolean mask / slicing of arrays yields new arrays (numpy views are not written here)
            return self.fresh(base, fi, depth + 1)
        if op == "mcall":
            if t.name in FRESH_METHODS:
                return True
            recv = t.args[0]
            if recv.op == "free" and recv.name in ("np", "jnp", "pd", "jax", "math", "itertools", "copy", "warnings"):
                return True
            if recv.op == "attr" and recv.args[0].op == "free":
                return True  # np.random.xxx, jax.lax.xxx
            fis = self.resolve_method(t, fi)
            if fis:
                return all(self.returns_fresh(f, None) for f in fis)
            return True
        if op == "call":
            if t.name in ("dict", "list", "tuple", "set", "sorted", "len", "int", "float", "str", "range", "zip",
                          "enumerate", "deepcopy", "copy", "sum", "max", "min", "isinstance", "prod", "partial", "reversed",
                          "next", "iter", "type", "print", "repr", "abs", "any", "all"):
                return True
            f = self.resolve_func(t.name, fi)
            if f is not None:
                return self.returns_fresh(f, None)
            return True
        if op == "callv":
            return True
        if op == "item":
            src = t.args[0]
            if src.op in ("call", "mcall"):
                fis = [self.resolve_func(src.name, fi)] if src.op == "call" else self.resolve_method(src, fi)
                fis = [f for f in fis if f is not None]
                if fis and isinstance(t.name, int):
                    if all(self.returns_fresh(f, t.name) for f in fis):
                        return True
                    # the callee returns one of its parameters: fresh iff that argument is fresh
                    args = src.args[1:] if src.op == "mcall" else src.args
                    ok = True
                    for f in fis:
                        k = self.returned_param(f, t.name)
                        if k is None or k >= len(args) or not self.fresh(args[k], fi, depth + 1):
                            ok = False
                    return ok
                return not fis
            return self.fresh(src, fi, depth + 1)
        return False

    def returns_fresh(self, f: FuncInfo, item: Optional[int]) -> bool:
        k = f"{f.file}:{f.qual}:{item}"
        if k in self._fresh_ret:
            v = self._fresh_ret[k]
            return True if v is None else v
        self._fresh_ret[k] = None  # recursion guard: assume fresh
        ex = self.expander(f)
        res = True
        for r in ex.returns:
            t = r
            if item is not None:
                alts = [t]
                if t.op == "ifexp":
                    alts = [t.args[1], t.args[2]]
                for a in alts:
                    e = a.args[item] if a.op == "tuple" and item < len(a.args) else T("item", item, [a])
                    if not self.fresh(e, f):
                        res = False
            elif not self.fresh(t, f):
                res = False
        self._fresh_ret[k] = res
        return res

    def returned_param(self, f: FuncInfo, item: Optional[int]) -> Optional[int]:
        ex = self.expander(f)
        params = [p for p in f.params if p != "self"]
        out = set()
        for r in ex.returns:
            t = r.args[item] if (item is not None and r.op == "tuple" and item < len(r.args)) else r
            while t.op == "ifexp":
                # either branch
                a, b = t.args[1], t.args[2]
                t = a if a.op == "param" else b
            if t.op == "param" and t.name in params:
                out.add(params.index(t.name))
            else:
                out.add(None)
        return out.pop() if len(out) == 1 else None

    # ---- resolution ----------------------------------------------------------------------
    def resolve_func(self, name: str, fi: FuncInfo) -> Optional[FuncInfo]:
        mi = self.repo.mods[fi.file]
        r = self.repo.resolve_name(mi, name)
        if isinstance(r, FuncInfo):
            return r
        # nested function of the enclosing definition
        top = fi
        while top.parent is not None:
            top = top.parent
        ex = self.expander(top)
        stack = [ex]
        while stack:
            e = stack.pop()
            if name in e.nested:
                return e.nested[name].fi
            stack.extend(e.nested.values())
        return None

    def is_module_term(self, t: T) -> bool:
        while t.op in ("attr", "mcall") and t.op == "attr" and t.name == "base":
            t = t.args[0]
        if t.op == "param" and t.name in MODULE_ROOTS:
            return True
        if t.op == "attr" and t.name == "base":
            return self.is_module_term(t.args[0])
        if t.op == "elem":
            src = t.args[0]
            return src.op == "attr" and src.name in ("cells", "branches", "comps")
        if t.op == "mcall" and t.name in ("cell", "branch", "comp", "scope", "select", "edge", "loc"):
            return self.is_module_term(t.args[0])
        if t.op == "attr" and t.name == "view":
            return self.is_module_term(t.args[0])
        return False

    def resolve_method(self, t: T, fi: FuncInfo) -> List[FuncInfo]:
        """Receiver-aware: only calls on module-typed receivers resolve to Module methods."""
        recv = t.args[0]
        if t.name in ("update_states", "compute_current", "init_state") and not self.is_module_term(recv):
            # dynamic dispatch over the mechanism classes
            out = []
            for ci in self.repo.classes.values():
                if t.name in ci.methods and any(b.name in ("Channel", "Synapse") for b in self.repo.mro(ci.name)):
                    out.append(ci.methods[t.name])
            return out
        if not self.is_module_term(recv):
            return []
        out = []
        for c in MODULE_CLASSES:
            ci = self.repo.classes.get(c)
            if ci and t.name in ci.methods:
                out.append(ci.methods[t.name])
        return out

    # ---- direct effects ----------------------------------------------------------------------
    def root_of(self, t: T, fi: FuncInfo) -> Tuple[Optional[str], str, bool]:
        """(root kind, path, fresh?)  root kind: 'param:<name>' / 'module' / None."""
        path = ""
        cur = t
        for _ in range(40):
            if cur.op == "attr":
                if cur.name in ("loc", "iloc", "at"):
                    cur = cur.args[0]
                    continue
                path = "." + cur.name + path
                cur = cur.args[0]
                continue
            if cur.op == "sub":
                path = "[]" + path
                cur = cur.args[0]
                continue
            if cur.op == "mcall" and cur.name == "copy":
                return None, path, True
            if cur.op == "elem":
                # an element of an iterated sequence: a store into it changes the objects the sequence holds
                path = "[*]" + path
                cur = cur.args[0]
                continue
            break
        if cur.op == "param":
            if cur.name in MODULE_ROOTS:
                p = path
                while p.startswith(".base"):
                    p = p[5:]
                return "module", p, False
            return "param:" + cur.name, path, False
        return None, path, self.fresh(cur, fi)

    def direct(self, fi: FuncInfo) -> List[Effect]:
        ex = self.expander(fi)
        out = []
        for s in ex.stores:
            if s.kind == "mcall":
                if s.key.name not in MUTATORS:
                    # in-place pandas ops
                    call = s.node
                    inplace = isinstance(call, ast.Call) and any(k.arg == "inplace" and isinstance(k.value, ast.Constant)
                                                                  and k.value.value is True for k in call.keywords)
                    if not (s.key.name in INPLACE_KW and inplace):
                        continue
                target = s.base
            elif s.kind == "aug":
                target = s.base
            elif s.kind in ("attr", "sub", "del"):
                target = T("attr", s.key.name, [s.base]) if s.kind == "attr" else T("sub", None, [s.base, s.key])
            else:
                continue
            if s.kind == "aug" and target.op not in ("param", "attr", "sub", "ifexp", "phi", "item", "call", "mcall"):
                continue
            if self.fresh(target if s.kind != "attr" and s.kind != "sub" else s.base, fi):
                continue
            root, path, fr = self.root_of(target, fi)
            if fr or root is None:
                continue
            out.append(Effect(s.kind, root, path, fi, s.node))
        return out

    # ---- transitive closure ------------------------------------------------------------------
    def summary(self, fi: FuncInfo, stack=()) -> List[Effect]:
        k = fi.file + ":" + fi.qual
        if k in self._summary:
            return self._summary[k]
        if k in stack:
            return []
        eff = list(self.direct(fi))
        ex = self.expander(fi)
        for c in ex.calls:
            self.calls_total += 1
            t = ex.term(c)
            callees: List[FuncInfo] = []
            recv = None
            if t.op == "call":
                f = self.resolve_func(t.name, fi)
                if f is not None:
                    callees = [f]
                args = list(t.args)
            elif t.op == "mcall":
                callees = self.resolve_method(t, fi)
                recv = t.args[0]
                args = list(t.args[1:])
            elif t.op == "callv":
                # call of a local function value: init_fn / step_fn returned by build_init_and_step_fn
                f0 = t.args[0]
                args = list(t.args[1:])
                if f0.op == "item" and f0.args[0].op == "call":
                    outer = self.resolve_func(f0.args[0].name, fi)
                    if outer is not None:
                        oex = self.expander(outer)
                        r = oex.returns[0] if oex.returns else None
                        if r is not None and r.op == "tuple" and isinstance(f0.name, int) and f0.name < len(r.args) \
                                and r.args[f0.name].op == "localfn":
                            nm = r.args[f0.name].name
                            if nm in oex.nested:
                                callees = [oex.nested[nm].fi]
            else:
                args = []
            if not callees:
                if t.op == "mcall" and t.args[0].op == "free":
                    self.calls_external += 1
                else:
                    self.calls_unresolved += 1
                # higher-order library calls: the function argument receives fresh pytrees
                continue
            self.calls_resolved += 1
            for cf in callees:
                params = [p for p in cf.params if p != "self"]
                for e in self.summary(cf, stack + (k,)):
                    if e.root == "module":
                        # callee's self: only if the receiver is (an alias of) the caller's module
                        if recv is None or self.is_module_term(recv):
                            eff.append(Effect(e.kind, "module", e.path, e.fi, e.node, (fi,) + e.via))
                        continue
                    if e.root.startswith("param:"):
                        pn = e.root[6:]
                        if pn not in params:
                            # closure variable of a nested function: resolve in the defining scope
                            continue
                        i = params.index(pn)
                        a = args[i] if i < len(args) else t.kw.get(pn)
                        if a is None:
                            # default argument object (mutable default) of the callee
                            eff.append(Effect(e.kind, f"default:{cf.qual}.{pn}", e.path, e.fi, e.node, (fi,) + e.via))
                            continue
                        if self.fresh(a, fi):
                            continue
                        root, path, fr = self.root_of(a, fi)
                        if fr or root is None:
                            continue
                        eff.append(Effect(e.kind, root, path + e.path, e.fi, e.node, (fi,) + e.via))
        # nested functions handed to scan etc. are analysed for module effects only
        for nm, sub in ex.nested.items():
            for e in self.summary(sub.fi, stack + (k,)):
                if e.root == "module":
                    eff.append(Effect(e.kind, "module", e.path, e.fi, e.node, (fi,) + e.via))
                elif e.root.startswith("param:") and e.root[6:] not in sub.fi.params:
                    eff.append(e)
        # dedupe
        seen, out = set(), []
        for e in eff:
            kk = (e.key(), e.fi.qual, getattr(e.node, "lineno", 0))
            if kk not in seen:
                seen.add(kk)
                out.append(e)
        self._summary[k] = out
        return out
