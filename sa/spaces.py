"""Engine E4: index-space typing on provenance terms.

Index spaces:  N node row label = global compartment index;  E global edge row label;
S rank of an edge within its synapse type;  M padded solver slot;  B global branch index;
P branch-point index;  C global cell index;  NB node-or-branchpoint index of the generic
sparse system (N <= NB);  CE row of the compartment-edge table.

`Classifier.space(t, kc)` maps a provenance term to the space its *values* live in (for an
index array) and `Classifier.domain(t, kc)` to the space its *positions* live in (for a data
array).  `kc` is the key class under which a function is analysed ("node" or "edge"): the
code itself only tests keys by membership, so this is a finite case split.

Only primitive producers are constants; everything else is derived structurally.  Unknown
terms get None (Top) and generate no constraint.
"""
from __future__ import annotations

from typing import Dict, List, Optional, Tuple

from .terms import T

NODE_COLS = {"global_comp_index": "N", "global_branch_index": "B", "global_cell_index": "C"}
EDGE_COLS = {"pre_global_comp_index": "N", "post_global_comp_index": "N", "global_edge_index": "E"}

PASS_METHODS = {"to_numpy", "to_list", "tolist", "unique", "copy", "astype", "flatten", "ravel", "squeeze",
                "reshape", "sort_values", "reset_index", "drop_duplicates", "view", "item"}
PASS_FUNCS = {"asarray", "array", "unique", "sort", "atleast_1d", "atleast_2d", "stack", "hstack", "concatenate",
              "squeeze", "list", "tuple", "int", "sorted"}
NODE_KEY_SETS = {"comp_states", "channel_states", "membrane_states"}
EDGE_KEY_SETS = {"edge_states", "synapse_states", "synapse_param_names", "synapse_state_names"}
# name sets that hold only STATE names / only PARAMETER names (the two name spaces are disjoint: `<Syn>_s` vs `<Syn>_gS`)
STATE_ONLY_SETS = {"comp_states", "channel_states", "membrane_states", "edge_states", "synapse_states", "synapse_state_names"}
PARAM_ONLY_SETS = {"synapse_param_names"}
# what the key at the site being classified is known to be: "state" (a key of the state dictionary), "param", or None.  A test of a
# state key against a parameter-only name set is false whatever the key class is (and vice versa).
KEY_KIND = [None]


class key_kind:
    """with key_kind("state"): ...  -- classify a site whose key is known to be a state (parameter) name"""
    def __init__(self, kind):
        self.kind = kind

    def __enter__(self):
        self.old = KEY_KIND[0]
        KEY_KIND[0] = self.kind

    def __exit__(self, *a):
        KEY_KIND[0] = self.old
        return False


class Sp:
    __slots__ = ("s", "sentinel", "why")

    def __init__(self, s, sentinel=False, why=""):
        self.s, self.sentinel, self.why = s, sentinel, why

    def __repr__(self):
        return f"Idx[{self.s}{'+pad' if self.sentinel else ''}]"


def _is_attr(t: T, name: str) -> bool:
    return t.op == "attr" and t.name == name


def table_kind(t: T, kc: Optional[str] = None) -> Optional[str]:
    """'nodes' / 'edges' if the term denotes (a restriction of) the node / edge table."""
    seen = 0
    while seen < 30:
        seen += 1
        if t.op == "ifexp":
            kt = key_test(t.args[0]) if kc is not None else None
            if kt is not None:
                t = t.args[1] if (kt[0] == kc) == kt[1] else t.args[2]
                continue
            kinds = {table_kind(t.args[1], kc), table_kind(t.args[2], kc)}
            return kinds.pop() if len(kinds) == 1 else None
        if t.op == "attr" and t.name in ("nodes", "edges"):
            return t.name
        if t.op == "param" and t.name in ("nodes", "edges", "channel_nodes", "pre_nodes", "post_nodes"):
            return "edges" if t.name == "edges" else "nodes"
        if t.op == "param" and t.name in ("pre_rows", "post_rows"):
            return "nodes"
        if t.op == "sub":
            base, sel = t.args
            if base.op == "attr" and base.name in ("loc", "iloc"):
                if sel.op == "tuple" and len(sel.args) == 2 and sel.args[1].op == "const":
                    return None  # a column
                t = base.args[0]
                continue
            if sel.op in ("cmp", "unary", "mcall", "bool", "binop") or (sel.op == "list"):
                t = base  # boolean mask / column list keeps the table
                continue
            if sel.op == "const" and isinstance(sel.name, str):
                return None  # a column
            return None
        if t.op == "mcall" and t.name in ("copy", "reset_index", "sort_values", "drop", "rename", "set_index",
                                           "join", "loc"):
            t = t.args[0]
            continue
        if t.op == "phi":
            kinds = {table_kind(a, kc) for a in t.args}
            return kinds.pop() if len(kinds) == 1 else None
        if t.op == "mcall" and t.name == "groupby":
            t = t.args[0]
            continue
        return None
    return None


def key_test(t: T) -> Optional[Tuple[str, bool]]:
    """If `t` tests the key class, return (class-for-which-the-test-is-true, positive?)."""
    neg = False
    if t.op == "not":
        r = key_test(t.args[0])
        return None if r is None else (r[0], not r[1])
    if t.op == "unary" and t.name == "Not":
        r = key_test(t.args[0])
        return None if r is None else (r[0], not r[1])
    if t.op == "mcall" and t.name == "isin" and len(t.args) in (2, 3):
        # vectorised membership of the KEY column:  recs["state"].isin(synapse_state_names)  /  np.isin(states, names)
        coll = t.args[-1]
        while coll.op in ("call", "mcall") and coll.name in ("list", "asarray", "array", "tuple", "set") and coll.args:
            coll = coll.args[-1]
        nm = coll.name if coll.op in ("attr", "param", "free", "name") and isinstance(coll.name, str) else None
        if coll.op == "item" and any(x.op == "mcall" and x.name == "_get_state_names" for x in coll.walk()):
            return ("node" if coll.name == 0 else "edge"), True
        if coll.op == "mcall" and coll.name == "_edge_state_names":
            return "edge", True
        if nm in EDGE_KEY_SETS:
            return "edge", True
        if nm in NODE_KEY_SETS:
            return "node", True
        return None
    if t.op == "cmp" and t.name in ("in", "not in"):
        coll = t.args[1]
        cls = None
        if coll.op == "attr" and coll.name == "columns":
            k = table_kind(coll.args[0])
            cls = {"nodes": "node", "edges": "edge"}.get(k)
        elif coll.op == "mcall" and coll.name == "keys":
            return None
        else:
            names = {x.name for x in coll.walk() if x.op in ("attr", "param", "free") and isinstance(x.name, str)}
            # `comp_states, edge_states = self._get_state_names()` -> item 0 / item 1
            if coll.op == "item" and any(x.op == "mcall" and x.name == "_get_state_names" for x in coll.walk()):
                cls = "node" if coll.name == 0 else "edge"
            elif any(x.op == "mcall" and x.name == "_edge_state_names" for x in coll.walk()):
                cls = "edge"
            elif names & EDGE_KEY_SETS:
                cls = "edge"
            elif names & NODE_KEY_SETS:
                cls = "node"
            if KEY_KIND[0] is not None and cls is not None:
                st_, pa_ = bool(names & STATE_ONLY_SETS), bool(names & PARAM_ONLY_SETS)
                if (KEY_KIND[0] == "state" and pa_ and not st_) or (KEY_KIND[0] == "param" and st_ and not pa_):
                    cls = "__never__"
        if cls is None:
            return None
        return cls, t.name == "in"
    return None


class Classifier:
    def __init__(self, slots: Dict[Tuple[str, str], Optional[str]] = None):
        # (slot name, kc) -> space
        self.slots = slots or {}

    # -- value space of an index-like term ---------------------------------------------
    def space(self, t: T, kc: str, depth=0) -> Optional[Sp]:
        if depth > 60 or t is None:
            return None
        op = t.op
        if op == "attr":
            n = t.name
            if n in ("_nodes_in_view", "_comps_in_view", "_internal_node_inds"):
                return Sp("N")
            if n == "_edges_in_view":
                return Sp("E")
            if n in ("_branches_in_view", "_par_inds", "_child_inds"):
                return Sp("B")
            if n == "_cells_in_view":
                return Sp("C")
            if n in ("index",):
                k = table_kind(t.args[0], kc)
                if k:
                    return Sp("N" if k == "nodes" else "E")
                return None
            if n in ("values", "T"):
                return self.space(t.args[0], kc, depth + 1)
            if n == "rec_index":
                return self.slot("rec_index", kc)
            return None
        if op == "sub":
            base, sel = t.args
            # slot dictionaries
            if self._is_named(base, "external_inds"):
                return self.slot("external_inds", self._kc_of_key(sel, kc))
            if sel.op == "const" and sel.name == "indices":
                sp = self.slot("pstate_indices", kc)
                if sp is not None and self.slots.get(("pstate_indices.pad", kc)):
                    sp.sentinel = True
                return sp
            # column of a table
            col = None
            if base.op == "attr" and base.name in ("loc", "iloc") and sel.op == "tuple" and len(sel.args) == 2:
                col, tbl = sel.args[1], base.args[0]
            elif sel.op == "const" and isinstance(sel.name, str):
                col, tbl = sel, base
            if col is not None and col.op == "const":
                k = table_kind(tbl, kc)
                if k == "nodes" and col.name in NODE_COLS:
                    return Sp(NODE_COLS[col.name])
                if k == "edges" and col.name in EDGE_COLS:
                    return Sp(EDGE_COLS[col.name])
                if col.name == "rec_index":
                    return self.slot("rec_index", kc)
                return None
            # rank converter  conv[inds] : E -> S
            if self.is_rank_converter(base):
                s = self.space(sel, kc, depth + 1)
                if s is not None and s.s == "E":
                    return Sp("S", s.sentinel, "rank-within-type conversion")
                return None
            # restriction x[mask] / x[a:b] / x[i]
            return self.space(base, kc, depth + 1)
        if op == "mcall":
            if t.name in PASS_METHODS:
                return self.space(t.args[0], kc, depth + 1)
            if t.name in PASS_FUNCS and len(t.args) >= 2:
                a = t.args[1]
                if a.op in ("list", "tuple"):
                    sp = [self.space(x, kc, depth + 1) for x in a.args]
                    sp = [x for x in sp if x is not None]
                    if sp and all(x.s == sp[0].s for x in sp):
                        return Sp(sp[0].s, any(x.sentinel for x in sp))
                    return None
                return self.space(a, kc, depth + 1)
            if t.name == "intersect1d" and len(t.args) >= 3:
                return self.space(t.args[1], kc, depth + 1) or self.space(t.args[2], kc, depth + 1)
            if t.name == "pad" and len(t.args) >= 2:
                s = self.space(t.args[1], kc, depth + 1)
                cv = t.kw.get("constant_values")
                if s is not None and cv is not None:
                    return Sp(s.s, True)
                return s
            if t.name == "where" and len(t.args) == 4:
                a, b = self.space(t.args[2], kc, depth + 1), self.space(t.args[3], kc, depth + 1)
                if a and b and a.s == b.s:
                    return Sp(a.s, False)  # a `where` that replaces entries clears the pad mark only if proven; see rules
                return a or b
            if t.name == "repeat":
                return self.space(t.args[0], kc, depth + 1) if t.args[0].op != "free" else (
                    self.space(t.args[1], kc, depth + 1) if len(t.args) > 1 else None)
            if t.name == "mask" and len(t.args) == 2:
                return Sp("M")
            if t.name == "apply" and len(t.args) >= 2 and t.args[1].op in ("free", "name") and t.args[1].name == "list":
                # grouped[col].apply(list): the values of the column, grouped
                return self.space(t.args[0], kc, depth + 1)
            if t.name == "apply" and len(t.args) >= 2 and t.args[1].op == "lambda":
                # grouped.apply(lambda x: x.index.values): row labels of the grouped table
                body = t.args[1].args[0]
                if any(x.op == "attr" and x.name == "index" and x.args[0].op == "param" for x in body.walk()):
                    k = table_kind(t.args[0], kc)
                    if k:
                        return Sp("N" if k == "nodes" else "E")
                return None
            if t.name in ("first", "last", "branch", "lower", "upper") and len(t.args) == 2 and \
                    any(x.op in ("param", "attr") and x.name in ("idx", "_solve_indexer") for x in t.args[0].walk()):
                return Sp("M")
            return None
        if op == "call":
            if t.name in PASS_FUNCS and t.args:
                return self.space(t.args[0], kc, depth + 1)
            return None
        if op == "callv":
            # lambda application through pad = lambda x: np.pad(...)
            f = t.args[0]
            if f.op == "lambda" and len(t.args) == 2:
                inner = f.args[0]
                s = self.space(inner, kc, depth + 1)
                if s is None:
                    s = self.space(t.args[1], kc, depth + 1)
                    if s is not None and any(x.op == "mcall" and x.name == "pad" for x in inner.walk()):
                        return Sp(s.s, True)
                return s
            return None
        if op == "ifexp":
            kt = key_test(t.args[0])
            if kt is not None:
                cls, pos = kt
                return self.space(t.args[1] if (cls == kc) == pos else t.args[2], kc, depth + 1)
            a, b = self.space(t.args[1], kc, depth + 1), self.space(t.args[2], kc, depth + 1)
            if a and b and a.s == b.s:
                return Sp(a.s, a.sentinel or b.sentinel)
            return None
        if op == "phi":
            sp = [self.space(x, kc, depth + 1) for x in t.args if x.op not in ("undef", "carried")]
            sp = [x for x in sp if x is not None]
            if sp and all(x.s == sp[0].s for x in sp):
                return Sp(sp[0].s, any(x.sentinel for x in sp))
            return None
        if op == "elem":
            return self.space(t.args[0], kc, depth + 1)
        if op == "item":
            # element i of zip(a, b, ...)
            src = t.args[0]
            if src.op == "elem":
                src = src.args[0]
            if src.op == "call" and src.name == "zip" and isinstance(t.name, int) and t.name < len(src.args):
                return self.space(src.args[t.name], kc, depth + 1)
            if src.op == "call" and src.name == "enumerate" and t.name == 1:
                return self.space(src.args[0], kc, depth + 1)
            # element i of the tuples produced by a comprehension / list of tuples
            if src.op in ("comp",) and src.args and src.args[0].op == "tuple" and isinstance(t.name, int) and \
                    t.name < len(src.args[0].args):
                return self.space(src.args[0].args[t.name], kc, depth + 1)
            # (name, inds) in X.items()  -> values of the dictionary X
            if t.name == 1 and src.op == "mcall" and src.name == "items" and self._is_named(src.args[0], "external_inds"):
                return self.slot("external_inds", kc)
            if src.op == "item":
                inner = self.space(T("item", t.name, [src]), kc, depth + 1) if False else None
                s2 = src.args[0]
                if s2.op == "elem":
                    s2 = s2.args[0]
                if s2.op == "call" and s2.name == "zip" and isinstance(src.name, int) and src.name < len(s2.args):
                    z = s2.args[src.name]
                    if t.name == 1 and z.op == "mcall" and z.name == "items" and self._is_named(z.args[0], "external_inds"):
                        return self.slot("external_inds", kc)
            return None
        if op in ("comp",):
            return self.space(t.args[0], kc, depth + 1)
        if op == "binop" and t.name in ("+", "-") and t.args[1].op == "const":
            return self.space(t.args[0], kc, depth + 1)
        if op == "binop" and t.name in ("+", "-"):
            # an index shifted by a scalar offset keeps its (global) numbering
            l = self.space(t.args[0], kc, depth + 1)
            r = t.args[1]
            scalar = (r.op == "sub" and r.args[1].op == "const" and isinstance(r.args[1].name, int)) or \
                (r.op == "mcall" and r.name in ("first_valid_index", "last_valid_index", "min", "max", "item", "argmax", "argmin", "idxmin", "idxmax")) or \
                (r.op == "call" and r.name in ("len", "int", "min", "max"))
            if l is not None and scalar:
                return Sp(l.s, l.sentinel, "shifted by an offset")
            return None
        if op in ("list", "tuple") and t.args:
            sp = [self.space(x, kc, depth + 1) for x in t.args]
            if all(x is not None for x in sp) and all(x.s == sp[0].s for x in sp):
                return sp[0]
            return None
        return None

    def slot(self, name: str, kc: Optional[str]) -> Optional[Sp]:
        if kc is None:
            return None
        s = self.slots.get((name, kc))
        return Sp(s, False, f"slot {name}[{kc}]") if s else None

    @staticmethod
    def _is_named(t: T, name: str) -> bool:
        return (t.op == "attr" and t.name == name) or (t.op == "param" and t.name == name) or \
            (t.op == "mcall" and t.name == "copy" and Classifier._is_named(t.args[0], name))

    @staticmethod
    def _kc_of_key(sel: T, kc: str) -> Optional[str]:
        if sel.op == "const":
            return "node" if sel.name in ("i", "v") else None
        return kc

    @staticmethod
    def is_rank_converter(t: T) -> bool:
        """edges.groupby('type').rank()['global_edge_index'] - 1  (any unary wrappers)."""
        has_group = any(x.op == "mcall" and x.name == "groupby" and len(x.args) >= 2 and x.args[1].op == "const"
                        and x.args[1].name == "type" for x in t.walk())
        has_rank = any(x.op == "mcall" and x.name == "rank" for x in t.walk())
        has_col = any(x.op == "const" and x.name == "global_edge_index" for x in t.walk())
        minus1 = any(x.op == "binop" and x.name == "-" and x.args[1].op == "const" and x.args[1].name == 1 for x in t.walk())
        # groupby('type').cumcount() is the same numbering (0-based position within the type, in table order)
        cum = any(x.op == "mcall" and x.name == "cumcount" and x.args and x.args[0].op == "mcall" and x.args[0].name == "groupby" and
                  len(x.args[0].args) >= 2 and x.args[0].args[1].op == "const" and x.args[0].args[1].name == "type" for x in t.walk())
        plus = any(x.op == "binop" and x.name in ("+", "-") and x.args[1].op == "const" and x.args[1].name not in (0,) for x in t.walk())
        return (has_group and has_rank and has_col and minus1) or (cum and not plus)

    # -- domain (position space) of a data array ---------------------------------------
    def domain(self, t: T, kc: str, depth=0) -> Optional[str]:
        if depth > 40 or t is None:
            return None
        if t.op == "sub":
            base, sel = t.args
            # state / parameter dictionaries: u[key], states[key], params[key], all_states[key]
            if base.op in ("param", "attr", "free") and base.name in (
                    "u", "state", "states", "params", "all_states", "all_params", "channel_params",
                    "jaxnodes", "jaxedges"):
                if base.name == "jaxnodes":
                    return "N"
                if base.name == "jaxedges":
                    return self.slots.get(("jaxedges.dom", "edge"))
                k = self._kc_of_key(sel, kc) if sel.op != "const" else self._const_key_class(sel)
                if k == "node":
                    return "N"
                if k == "edge":
                    return self.slots.get(("jaxedges.dom", "edge"))
                return None
            if sel.op == "const" and isinstance(sel.name, str):
                k = table_kind(base)
                if k:
                    return "N" if k == "nodes" else "E"
            return None
        if t.op == "mcall" and t.name in PASS_METHODS | {"set", "add"}:
            return self.domain(t.args[0], kc, depth + 1)
        if t.op == "phi":
            d = {self.domain(a, kc, depth + 1) for a in t.args}
            d.discard(None)
            return d.pop() if len(d) == 1 else None
        if t.op == "attr" and t.name == "at":
            return self.domain(t.args[0], kc, depth + 1)
        return None

    @staticmethod
    def _const_key_class(sel: T) -> Optional[str]:
        if sel.op == "const" and sel.name in ("v", "i", "radius", "length", "axial_resistivity", "capacitance"):
            return "node"
        return None
