"""Def-use expansion of expressions into provenance terms (shared by E4/E6 and the
role / ordering rules).

For a function, every `Name` load is bound to the term of its reaching definition(s)
(flow-sensitive over structured control flow: `if` merges into `phi`, loop targets become
`elem(iterable)`, loop-carried names `phi(before, body)`).  `Expander.term(expr)` then
translates any expression of the function into a term in which local temporaries have been
expanded away -- so renaming a local, hoisting a sub-expression into a temporary, or
splitting a statement does not change the term.
"""
from __future__ import annotations

import ast
from typing import Callable, Dict, List, Optional

from .core import FuncInfo, Repo, unparse

MAX_DEPTH = 40


class T:
    __slots__ = ("op", "name", "args", "kw", "node", "_key")

    def __init__(self, op, name=None, args=(), kw=None, node=None):
        self.op, self.name, self.args, self.kw, self.node = op, name, tuple(args), kw or {}, node
        self._key = None

    def key(self) -> str:
        if self._key is None:
            a = ",".join(x.key() for x in self.args)
            k = ",".join(f"{n}={v.key()}" for n, v in sorted(self.kw.items()))
            nm = "" if self.name is None else repr(self.name) if not isinstance(self.name, str) else self.name
            self._key = f"{self.op}({nm}{':' if nm and (a or k) else ''}{a}{';' + k if k else ''})"
        return self._key

    def short(self, n=110) -> str:
        s = self.pretty()
        return s if len(s) <= n else s[: n - 3] + "..."

    def pretty(self) -> str:
        o = self.op
        if o in ("param", "name", "free", "localfn"):
            return str(self.name)
        if o == "const":
            return repr(self.name)
        if o == "attr":
            return f"{self.args[0].pretty()}.{self.name}"
        if o == "sub":
            return f"{self.args[0].pretty()}[{self.args[1].pretty()}]"
        if o == "mcall":
            return f"{self.args[0].pretty()}.{self.name}({', '.join(a.pretty() for a in self.args[1:])})"
        if o == "call":
            return f"{self.name}({', '.join(a.pretty() for a in self.args)})"
        if o == "phi":
            return "phi(" + " | ".join(a.pretty() for a in self.args) + ")"
        if o == "elem":
            return f"each({self.args[0].pretty()})"
        if o == "binop":
            return f"({self.args[0].pretty()} {self.name} {self.args[1].pretty()})"
        if o == "item":
            return f"{self.args[0].pretty()}#{self.name}"
        if o == "cmp" and len(self.args) == 2:
            return f"({self.args[0].pretty()} {self.name} {self.args[1].pretty()})"
        if o == "bool" and self.name:
            return f"{self.name}({', '.join(a.pretty() for a in self.args)})"
        return f"{o}({', '.join(a.pretty() for a in self.args)})"

    def walk(self):
        yield self
        for a in self.args:
            yield from a.walk()
        for v in self.kw.values():
            yield from v.walk()

    @staticmethod
    def find(t: "T", pred: Callable[["T"], bool]) -> Optional["T"]:
        for x in t.walk():
            if pred(x):
                return x
        return None

    @staticmethod
    def find_all(t: "T", pred) -> List["T"]:
        return [x for x in t.walk() if pred(x)]

    def __repr__(self):
        return self.short(200)


NEG = {"!=": "==", "is not": "is", "not in": "in"}


def _pos_cond(c: "T"):
    """(positive condition, flipped?) -- `a != b`, `a is not b`, `a not in b`, `not x` are the negations of a positive test."""
    flipped = False
    while True:
        if c.op == "cmp" and c.name in NEG:
            c = T("cmp", NEG[c.name], c.args, node=c.node)
            flipped = not flipped
            continue
        if (c.op == "unary" and c.name == "Not") or (c.op == "not" and len(c.args) == 1):
            c = c.args[0]
            flipped = not flipped
            continue
        return c, flipped


def _restrict(t: "T", ckey: str, val: bool) -> "T":
    """t under the assumption that the (positive) condition with key `ckey` has truth value `val`."""
    if t.op == "ifexp":
        c, fl = _pos_cond(t.args[0])
        if c.key() == ckey:
            return _restrict(t.args[1] if (val != fl) else t.args[2], ckey, val)
        # a condition that is itself a conditional with constant outcomes:  (False if c else True)
        c2 = _restrict(t.args[0], ckey, val)
        c2p, fl2 = _pos_cond(c2)
        if c2p.op == "const" and isinstance(c2p.name, bool):
            return _restrict(t.args[1] if (c2p.name != fl2) else t.args[2], ckey, val)
    if not t.args and not t.kw:
        return t
    return T(t.op, t.name, [_restrict(a, ckey, val) for a in t.args], {k: _restrict(v, ckey, val) for k, v in t.kw.items()}, t.node)


def _loop_as_comprehension(alts):
    """phi(empty, acc(empty, ...))  /  phi(empty, ifexp(c, acc(empty, ...), empty))  ->  comp / dictcomp, or None"""
    def empty(x):
        return (x.op in ("list", "dict") and not x.args) or (x.op == "call" and x.name in ("list", "dict") and not x.args and not x.kw)
    e = next((a for a in alts if empty(a)), None)
    o = next((a for a in alts if a is not e), None)
    if e is None or o is None:
        return None
    cond = None
    if o.op == "ifexp" and empty(o.args[2]) and o.args[1].op in ("listacc", "dictacc"):
        cond, o = o.args[0], o.args[1]
    elif o.op == "ifexp" and empty(o.args[1]) and o.args[2].op in ("listacc", "dictacc"):
        cond, o = T("not", None, [o.args[0]]), o.args[2]
    if o.op == "listacc" and o.name == "append" and len(o.args) == 2 and empty(o.args[0]) and e.op in ("list", "call"):
        parts = [o.args[1]]
    elif o.op == "dictacc" and len(o.args) == 3 and empty(o.args[0]):
        parts = [o.args[1], o.args[2]]
    else:
        return None
    # the loop's iterable: the one sequence whose element the parts (and the condition) are computed from
    inner_iters = set()
    for p_ in parts + ([cond] if cond is not None else []):
        for x in p_.walk():
            if x.op in ("comp", "dictcomp"):
                inner_iters.add((x.args[1] if x.op == "comp" else x.args[2]).key())
    its = {}
    for p_ in parts + ([cond] if cond is not None else []):
        for x in p_.walk():
            if x.op == "elem" and x.args and x.args[0].key() not in inner_iters:
                its.setdefault(x.args[0].key(), x.args[0])
    # elements of a zip / enumerate / items() of the same sequence are elements of ONE loop
    if len(its) != 1:
        return None
    X = next(iter(its.values()))
    if o.op == "listacc":
        return T("comp", None, [parts[0], X] + ([cond] if cond is not None else []), node=o.node)
    return T("dictcomp", None, [parts[0], parts[1], X] + ([cond] if cond is not None else []), node=o.node)


def fuse_comprehensions(t: "T") -> "T":
    """each(comp(E, iter)) == E : an element of `[E for x in iter]` is E at that x (the comprehension variable is already
    the term each(iter) inside E).  Only for comprehensions without conditions."""
    if not t.args and not t.kw:
        return t
    args = [fuse_comprehensions(a) for a in t.args]
    kw = {k: fuse_comprehensions(v) for k, v in t.kw.items()}
    # f(*[a, b]) == f(a, b);  [*[a, b], c] == [a, b, c]
    if any(a.op == "star" and a.args[0].op in ("list", "tuple") for a in args) and t.op in ("call", "mcall", "callv", "list", "tuple"):
        flat = []
        for a in args:
            flat += list(a.args[0].args) if (a.op == "star" and a.args[0].op in ("list", "tuple")) else [a]
        args = flat
    # a container filled in a loop is the comprehension:  acc = []; for x in X: (if c:) acc.append(E)   ==   [E for x in X (if c)]
    #                                                     acc = {}; for x in X: (if c:) acc[K] = V       ==   {K: V for x in X (if c)}
    if t.op == "phi" and len(args) == 2:
        r_ = _loop_as_comprehension(args)
        if r_ is not None:
            return r_
    # a comprehension over a LITERAL sequence is the literal list of its instances:  [f(x) for x in (a, b)] == [f(a), f(b)]
    if t.op == "comp" and len(args) == 2 and args[1].op in ("list", "tuple") and \
            not any(a.op == "star" for a in args[1].args):
        lit = args[1]
        ekey = T("elem", None, [lit]).key()

        def inst(x, v):
            if x.key() == ekey:
                return v
            if not x.args and not x.kw:
                return x
            return T(x.op, x.name, [inst(a, v) for a in x.args], {k: inst(v_, v) for k, v_ in x.kw.items()}, x.node)
        return T("list", None, [fuse_comprehensions(inst(args[0], v)) for v in lit.args], node=t.node)
    # component k of a literal sequence
    if t.op == "item" and isinstance(t.name, int) and args and args[0].op in ("list", "tuple") and 0 <= t.name < len(args[0].args) and \
            not any(a.op == "star" for a in args[0].args):
        return args[0].args[t.name]
    # constant position / constant prefix or suffix of a literal sequence:  [a, b, c][1] == b,  [a, b, c][:2] == [a, b]
    if t.op == "sub" and len(args) == 2 and args[0].op in ("list", "tuple") and not any(a.op == "star" for a in args[0].args):
        lit, ix = args
        if ix.op == "const" and isinstance(ix.name, int) and not isinstance(ix.name, bool) and -len(lit.args) <= ix.name < len(lit.args):
            return lit.args[ix.name]
        if ix.op == "slice" and all(b_.op == "const" and (b_.name is None or (isinstance(b_.name, int) and not isinstance(b_.name, bool)))
                                    for b_ in ix.args):
            lo, hi, st = (b_.name for b_ in ix.args)
            return T(lit.op, lit.name, list(lit.args)[slice(lo, hi, st)], node=t.node)
    if t.op == "elem" and args and args[0].op == "comp" and len(args[0].args) == 2:
        return args[0].args[0]
    # an element of list(X) / tuple(X) is an element of X  (`pairs = list(zip(a, b)); for p, q in pairs`)
    if t.op == "elem" and args and args[0].op == "call" and args[0].name in ("list", "tuple") and len(args[0].args) == 1 and not args[0].kw:
        return fuse_comprehensions(T("elem", None, [args[0].args[0]], node=t.node))
    # `for k, v in d.items()`: v == d[k]
    if t.op == "item" and t.name == 1 and args and args[0].op == "elem" and args[0].args[0].op == "mcall" and \
            args[0].args[0].name == "items" and len(args[0].args[0].args) == 1:
        return T("sub", None, [args[0].args[0].args[0], T("item", 0, [args[0]], node=t.node)], node=t.node)
    # component k of an element of zip(A0, A1, ...) is an element of Ak
    if t.op == "item" and isinstance(t.name, int) and args and args[0].op == "elem" and args[0].args[0].op == "call" and \
            args[0].args[0].name == "zip" and t.name < len(args[0].args[0].args):
        return fuse_comprehensions(T("elem", None, [args[0].args[0].args[t.name]], node=t.node))
    # element k of a comprehension over a LITERAL list:  [f(x) for x in [a, b, c]][1] == f(b)
    if t.op == "item" and isinstance(t.name, int) and args and args[0].op == "comp" and len(args[0].args) == 2 and \
            args[0].args[1].op in ("list", "tuple") and 0 <= t.name < len(args[0].args[1].args):
        lit = args[0].args[1]
        ekey = T("elem", None, [lit]).key()

        def sub_elem(x):
            if x.key() == ekey:
                return lit.args[t.name]
            if not x.args and not x.kw:
                return x
            return T(x.op, x.name, [sub_elem(a) for a in x.args], {k: sub_elem(v) for k, v in x.kw.items()}, x.node)
        return sub_elem(args[0].args[0])
    return T(t.op, t.name, args, kw, t.node)


def counter_entries(t: "T") -> "T":
    """`S[k]` for a counter k that runs over `range(len(..))` is an entry of S (`each(S)`).  Drops WHICH entry -- use only where the
    question is what kind of thing an entry of S is (index spaces), never where positions are compared."""
    if not t.args and not t.kw:
        return t
    args = [counter_entries(a) for a in t.args]
    kw = {k: counter_entries(v) for k, v in t.kw.items()}
    if t.op == "sub" and len(args) == 2 and args[1].op == "elem" and args[1].args[0].op == "call" and args[1].args[0].name == "range" and \
            len(args[1].args[0].args) == 1 and args[1].args[0].args[0].op == "call" and args[1].args[0].args[0].name == "len" and \
            not any(x.key() == args[1].key() for x in args[0].walk()):
        return T("elem", None, [args[0]], node=t.node)
    return T(t.op, t.name, args, kw, t.node)


def align_positions(t: "T") -> "T":
    """Element k / position k of `enumerate(X)`:  `for i, x in enumerate(X)` -> x == each(X), i == pos(X'), where X' is the
    sequence X was built from element by element (a comprehension keeps length and order).  Afterwards comprehensions are
    fused, so `p for i, p in enumerate([c.a for c in cells])` and `c.a for c in cells` are the same element."""
    def seqroot(x):
        while x.op == "comp" and len(x.args) == 2:
            x = x.args[1]
        return x

    def walk(x):
        if not x.args and not x.kw:
            return x
        if x.op == "item" and x.name in (0, 1) and x.args and x.args[0].op == "elem" and x.args[0].args[0].op == "call" and \
                x.args[0].args[0].name == "enumerate" and len(x.args[0].args[0].args) == 1:
            seq = walk(x.args[0].args[0].args[0])
            if x.name == 1:
                return T("elem", None, [seq], node=x.node)
            return T("pos", None, [seqroot(seq)], node=x.node)
        return T(x.op, x.name, [walk(a) for a in x.args], {k: walk(v) for k, v in x.kw.items()}, x.node)
    return fuse_comprehensions(walk(t))


def nest(t: "T", *names) -> bool:
    """True if nodes named names[0], names[1], ... occur nested in this order (each inside the previous one).  A name
    matches a call / method call / attribute of that name, `each` matches an element-of, `param:x` a parameter."""
    def match(x, nm):
        if nm == "each":
            return x.op == "elem"
        if nm.startswith("param:"):
            return x.op == "param" and x.name == nm[6:]
        return x.op in ("call", "mcall", "attr", "free", "localfn") and x.name == nm
    if not names:
        return True
    for x in t.walk():
        if match(x, names[0]):
            if len(names) == 1:
                return True
            if any(nest(c, *names[1:]) for c in list(x.args) + list(x.kw.values())):
                return True
    return False


def fold_constant_conditions(t: "T") -> "T":
    """`a if True else b` == a (after a flag parameter has been bound to the constant its caller passes)."""
    if not t.args and not t.kw:
        return t
    if t.op == "ifexp":
        c, fl = _pos_cond(t.args[0])
        if c.op == "const" and isinstance(c.name, bool):
            return fold_constant_conditions(t.args[1] if (c.name != fl) else t.args[2])
    return T(t.op, t.name, [fold_constant_conditions(a) for a in t.args], {k: fold_constant_conditions(v) for k, v in t.kw.items()}, t.node)


def beta_reduce(t: "T") -> "T":
    """(lambda a, b: E)(x, y) == E[a := x, b := y]  (positional parameters without defaults; terms are pure)."""
    if not t.args and not t.kw:
        return t
    args = [beta_reduce(a) for a in t.args]
    kw = {k: beta_reduce(v) for k, v in t.kw.items()}
    if t.op == "callv" and args and args[0].op == "lambda" and isinstance(args[0].node, ast.Lambda) and not kw:
        la = args[0].node.args
        if not (la.vararg or la.kwarg or la.kwonlyargs or la.defaults) and len(la.posonlyargs + la.args) == len(args) - 1 and \
                not any(a.op == "star" for a in args[1:]):
            m = {"λ" + p_.arg: v for p_, v in zip(la.posonlyargs + la.args, args[1:])}

            def sub(x):
                if x.op == "param" and x.name in m:
                    return m[x.name]
                if x.op == "lambda":
                    return x  # an inner lambda may rebind the name: leave it alone
                if not x.args and not x.kw:
                    return x
                return T(x.op, x.name, [sub(a) for a in x.args], {k: sub(v) for k, v in x.kw.items()}, x.node)
            return beta_reduce(sub(args[0].args[0]))
    return T(t.op, t.name, args, kw, t.node)


def normalise_tests(t: "T") -> "T":
    """`x in [a, b]` == `x == a or x == b`;  `x not in (a, b)` == `x != a and x != b`;  the operands of and/or are
    ordered (terms are pure, so evaluation order does not matter) and duplicates dropped."""
    if not t.args and not t.kw:
        return t
    args = [normalise_tests(a) for a in t.args]
    kw = {k: normalise_tests(v) for k, v in t.kw.items()}
    if t.op == "cmp" and t.name in ("in", "not in") and len(args) == 2 and args[1].op in ("list", "tuple", "set") and args[1].args and \
            not any(a.op == "star" for a in args[1].args):
        eq = "==" if t.name == "in" else "!="
        parts = [T("cmp", eq, [args[0], a], node=t.node) for a in args[1].args]
        if len(parts) == 1:
            return parts[0]
        t, args, kw = T("bool", "Or" if t.name == "in" else "And", parts, node=t.node), parts, {}
    if t.op == "bool":
        flat = []
        for a in args:
            flat += list(a.args) if (a.op == "bool" and a.name == t.name) else [a]
        seen, out = set(), []
        for a in sorted(flat, key=lambda x: x.key()):
            if a.key() not in seen:
                seen.add(a.key())
                out.append(a)
        if len(out) == 1:
            return out[0]
        return T("bool", t.name, out, node=t.node)
    return T(t.op, t.name, args, kw, t.node)


def canon(t: "T", max_conds: int = 6) -> "T":
    """Canonical form modulo the placement of conditionals: the term is Shannon-expanded over its distinct
    (positive) `ifexp` conditions in sorted order, so  f(a if c else b) == f(a) if c else f(b),
    `x if c else y` == `y if not c else x`, and nested tests on the same condition collapse.  Expressions are pure
    (terms carry no effects), so the rewriting preserves the value.  Terms with more than `max_conds` distinct
    conditions are returned unchanged."""
    t = normalise_tests(fold_constant_conditions(fuse_comprehensions(beta_reduce(t))))
    conds = {}
    for x in t.walk():
        if x.op == "ifexp":
            c, _ = _pos_cond(x.args[0])
            conds.setdefault(c.key(), c)
    if not conds or len(conds) > max_conds:
        return t

    def build(term, keys):
        if not keys:
            return term
        k = keys[0]
        if not any(x.op == "ifexp" and _pos_cond(x.args[0])[0].key() == k for x in term.walk()):
            return build(term, keys[1:])
        a = build(_restrict(term, k, True), keys[1:])
        b = build(_restrict(term, k, False), keys[1:])
        if a.key() == b.key():
            return a
        return T("ifexp", None, [conds[k], a, b], node=term.node)

    return normalise_tests(build(t, sorted(conds)))


def phi(alts: List[T]) -> T:
    flat, seen = [], set()
    for a in alts:
        for x in (a.args if a.op == "phi" else (a,)):
            if x.key() not in seen:
                seen.add(x.key())
                flat.append(x)
    if len(flat) == 1:
        return flat[0]
    return T("phi", None, sorted(flat, key=lambda x: x.key()))


BINOPS = {ast.Add: "+", ast.Sub: "-", ast.Mult: "*", ast.Div: "/", ast.FloorDiv: "//", ast.Mod: "%",
          ast.Pow: "**", ast.BitAnd: "&", ast.BitOr: "|", ast.BitXor: "^", ast.MatMult: "@",
          ast.LShift: "<<", ast.RShift: ">>"}
CMPOPS = {ast.Eq: "==", ast.NotEq: "!=", ast.Lt: "<", ast.LtE: "<=", ast.Gt: ">", ast.GtE: ">=",
          ast.Is: "is", ast.IsNot: "is not", ast.In: "in", ast.NotIn: "not in"}


class Store:
    """A store into a container or attribute: target-base term, key term, value term."""

    def __init__(self, kind, base, key, value, node, stmt, guards):
        self.kind, self.base, self.key, self.value, self.node, self.stmt, self.guards = (
            kind, base, key, value, node, stmt, guards)


class Expander:
    def __init__(self, repo: Repo, fi: FuncInfo, outer_env: Dict[str, T] = None, self_term: T = None):
        self.repo, self.fi = repo, fi
        self.bind: Dict[int, T] = {}
        self.stores: List[Store] = []
        self.calls: List[ast.Call] = []
        self.nested: Dict[str, "Expander"] = {}
        self.returns: List[T] = []
        self.guard_stack: List[T] = []
        self.stmt_guards: Dict[int, tuple] = {}
        self.final_env: Dict[str, T] = {}
        self.env_at: Dict[int, Dict[str, T]] = {}
        self.return_guards: List[tuple] = []
        self._cache: Dict[int, T] = {}
        env = dict(outer_env or {})
        a = fi.node.args
        for p in a.posonlyargs + a.args + a.kwonlyargs:
            env[p.arg] = T("param", p.arg)
        if a.vararg:
            env[a.vararg.arg] = T("param", "*" + a.vararg.arg)
        if a.kwarg:
            env[a.kwarg.arg] = T("param", "**" + a.kwarg.arg)
        self.param_names = [p.arg for p in a.posonlyargs + a.args + a.kwonlyargs]
        self.final_env = self._block(fi.node.body, env)

    # -- statements --------------------------------------------------------------------
    def _block(self, stmts, env):
        pushed = 0
        for st in stmts:
            self.env_at[id(st)] = dict(env)
            env = self._stmt(st, env)
            # `if c: continue` / `if c: return ...` -- the rest of this block runs only if not c (the same as putting the rest
            # into an else-branch); an early `raise` is an error exit and does not condition the normal path
            if isinstance(st, ast.If):
                test_, body_, orelse_ = _positive_if(st)
                c1 = bool(body_) and isinstance(body_[-1], (ast.Continue, ast.Return))
                c2 = bool(orelse_) and isinstance(orelse_[-1], (ast.Continue, ast.Return))
                if c1 != c2:
                    g = self._tr(test_)
                    self.guard_stack.append(_neg_guard(g) if c1 else g)
                    pushed += 1
        for _ in range(pushed):
            self.guard_stack.pop()
        return env

    def merged_return(self) -> Optional["T"]:
        """The returned value as ONE term: `if c: return a` followed by `return b` is `a if c else b` (early returns and
        a conditional expression are the same function).  None if the returns cannot be merged (loops, nested guards
        that do not form a chain)."""
        if not self.returns or len(self.returns) != len(self.return_guards):
            return self.returns[-1] if len(self.returns) == 1 else None
        if len(self.returns) == 1:
            return self.returns[0]
        out = None
        for r, gs in reversed(list(zip(self.returns, self.return_guards))):
            gs = [g for g in gs if g.op != "loop"]
            if any(g.op == "loop" for g in gs):
                return None
            if out is None:
                # the last return: reached when none of the earlier guards held (its own guards are the negations)
                out = r
                continue
            if not gs:
                return None  # an unconditional return followed by more returns: dead code, do not guess
            cond = gs[0] if len(gs) == 1 else T("bool", "And", list(gs))
            out = T("ifexp", None, [cond, r, out], node=r.node)
        return out

    def term_of_source(self, src: str, at_stmt: ast.AST = None) -> "T":
        """The term of an expression given as source text, with names bound as they are at statement `at_stmt` (or at
        the end of the function): the reference side of 'this statement computes <expr>' comparisons."""
        node = ast.parse(src, mode="eval").body
        env = self.env_at.get(id(at_stmt)) if at_stmt is not None else None
        self._record_names(node, env if env is not None else self.final_env)
        return self._tr(node)

    def _record_names(self, node, env):
        """Bind every Name load under `node` (not descending into nested defs)."""
        todo = [node]
        while todo:
            n = todo.pop()
            if isinstance(n, ast.Name) and isinstance(n.ctx, ast.Load):
                self.bind[id(n)] = env.get(n.id) or T("free", n.id)
                continue
            if isinstance(n, ast.Attribute) and isinstance(n.value, ast.Name) and n.value.id == "self" and \
                    isinstance(n.ctx, ast.Load) and ("self." + n.attr) in env:
                # an attribute of self assigned earlier in this function
                self.bind[id(n)] = env["self." + n.attr]
                continue
            if isinstance(n, ast.Lambda):
                sub = dict(env)
                for p in n.args.args:
                    sub[p.arg] = T("param", "λ" + p.arg)
                self._record_names(n.body, sub)
                continue
            if isinstance(n, (ast.ListComp, ast.SetComp, ast.GeneratorExp, ast.DictComp)):
                sub = dict(env)
                for g in n.generators:
                    self._record_names(g.iter, sub)
                    it = self._tr(g.iter)
                    self._bind_target(g.target, T("elem", None, [it]), sub)
                    for c in g.ifs:
                        self._record_names(c, sub)
                if isinstance(n, ast.DictComp):
                    self._record_names(n.key, sub)
                    self._record_names(n.value, sub)
                else:
                    self._record_names(n.elt, sub)
                continue
            if isinstance(n, ast.NamedExpr):
                self._record_names(n.value, env)
                env[n.target.id] = self._tr(n.value)
                continue
            if isinstance(n, ast.Call):
                self.calls.append(n)
            if isinstance(n, (ast.FunctionDef, ast.ClassDef)):
                continue
            todo.extend(ast.iter_child_nodes(n))

    def _bind_target(self, t, val: T, env):
        if isinstance(t, ast.Name):
            env[t.id] = val
        elif isinstance(t, (ast.Tuple, ast.List)):
            for i, e in enumerate(t.elts):
                if val.op in ("tuple", "list") and len(val.args) == len(t.elts):
                    self._bind_target(e, val.args[i], env)
                else:
                    self._bind_target(e, T("item", i, [val]), env)
        elif isinstance(t, ast.Starred):
            self._bind_target(t.value, T("item", "*", [val]), env)
        elif isinstance(t, ast.Attribute):
            self._record_names(t.value, env)
            self.stores.append(Store("attr", self._tr(t.value), T("const", t.attr), val, t, self._cur_stmt,
                                     tuple(self.guard_stack)))
            if isinstance(t.value, ast.Name) and t.value.id == "self":
                env["self." + t.attr] = val
        elif isinstance(t, ast.Subscript):
            self._record_names(t.value, env)
            self._record_names(t.slice, env)
            self.stores.append(Store("sub", self._tr(t.value), self._tr(t.slice), val, t, self._cur_stmt,
                                     tuple(self.guard_stack)))
            # a LOCAL dictionary that starts empty and is filled key by key keeps what was put into it (like a list filled with
            # append): dictacc(dict, key, value) -- `d = {}; for k in K: d[k] = V` is the comprehension {k: V for k in K}
            if isinstance(t.value, ast.Name) and t.value.id in env and not isinstance(t.slice, ast.Slice):
                old = env[t.value.id]
                fresh = lambda x: (x.op == "dict" and not x.args) or (x.op == "call" and x.name == "dict" and not x.args and not x.kw)
                dicty = fresh(old) or old.op == "dictacc" or (old.op in ("phi", "ifexp") and T.find(old, lambda x: x.op == "dictacc" or fresh(x)) is not None
                                                              and T.find(old, lambda x: x.op == "param") is None)
                if dicty:
                    env[t.value.id] = T("dictacc", None, [old, self._tr(t.slice), val], node=t)

    def _stmt(self, st, env):
        self._cur_stmt = st
        self.stmt_guards[id(st)] = tuple(self.guard_stack)
        if isinstance(st, ast.Assign):
            self._record_names(st.value, env)
            v = self._tr(st.value)
            for t in st.targets:
                self._bind_target(t, v, env)
            # `X = E.assign(a=u, b=w)` (pandas) is `X = E; X["a"] = u; X["b"] = w`: the columns are recorded as stores into X
            c_ = st.value
            if isinstance(c_, ast.Call) and isinstance(c_.func, ast.Attribute) and c_.func.attr == "assign" and not c_.args and c_.keywords and \
                    all(k_.arg for k_ in c_.keywords) and len(st.targets) == 1 and isinstance(st.targets[0], ast.Name):
                base_t = self._tr(c_.func.value)
                for k_ in c_.keywords:
                    self.stores.append(Store("sub", base_t, T("const", k_.arg), self._tr(k_.value), k_.value, st, tuple(self.guard_stack)))
            # `name = obj.attr = {}`: the local name and the attribute are ONE mutable object; stores through the name are
            # stores into the attribute
            if len(st.targets) > 1 and isinstance(st.value, (ast.Dict, ast.List, ast.Set, ast.Call)):
                owner = next((t for t in st.targets if isinstance(t, ast.Attribute)), None)
                if owner is not None:
                    load = ast.copy_location(_as_load(owner), owner)
                    self._record_names(load, env)
                    alias = self._tr(load)
                    for t in st.targets:
                        if isinstance(t, ast.Name):
                            self._bind_target(t, alias, env)
            return env
        if isinstance(st, ast.AnnAssign):
            if st.value is not None:
                self._record_names(st.value, env)
                self._bind_target(st.target, self._tr(st.value), env)
            return env
        if isinstance(st, ast.AugAssign):
            self._record_names(st.value, env)
            load = ast.copy_location(_as_load(st.target), st.target)
            self._record_names(load, env)
            old = self._tr(load)
            v = T("binop", BINOPS.get(type(st.op), "?"), [old, self._tr(st.value)], node=st)
            v.kw["aug"] = T("const", True)
            if isinstance(st.target, ast.Name):
                # `x += y` mutates x in place when x is a list/dict/array-like alias
                self.stores.append(Store("aug", old, T("const", BINOPS.get(type(st.op), "?")), self._tr(st.value), st, st,
                                         tuple(self.guard_stack)))
            self._bind_target(st.target, v, env)
            return env
        if isinstance(st, ast.Expr):
            self._record_names(st.value, env)
            # in-place mutation through method calls is recorded as a store
            c = st.value
            if isinstance(c, ast.Call) and isinstance(c.func, ast.Attribute):
                self.stores.append(Store("mcall", self._tr(c.func.value), T("const", c.func.attr),
                                         self._tr(c), c, st, tuple(self.guard_stack)))
                self._inline_setter(c, st)
                # a local list that is filled with append/extend keeps what was put into it:  acc(list, guard?, element)
                if c.func.attr in ("append", "extend") and isinstance(c.func.value, ast.Name) and c.func.value.id in env \
                        and len(c.args) == 1 and env[c.func.value.id].op in ("list", "listacc", "phi", "carried", "call", "ifexp"):
                    old = env[c.func.value.id]
                    is_listy = old.op in ("list", "listacc") or T.find(old, lambda x: x.op in ("list", "listacc")) is not None
                    if is_listy:
                        env = dict(env)
                        env[c.func.value.id] = T("listacc", c.func.attr, [old, self._tr(c.args[0])], node=c)
            return env
        if isinstance(st, ast.Return):
            if st.value is not None:
                self._record_names(st.value, env)
                self.returns.append(self._tr(st.value))
                self.return_guards.append(tuple(self.guard_stack))
            return env
        if isinstance(st, ast.If):
            self._record_names(st.test, env)
            # `if not c: A else: B` is `if c: B else: A`: conditions are kept positive, so an inverted if/else is the same program
            test_, body_, orelse_ = _positive_if(st)
            g = self._tr(test_)
            self.guard_stack.append(g)
            e1 = self._block(body_, dict(env))
            self.guard_stack.pop()
            self.guard_stack.append(_neg_guard(g))
            e2 = self._block(orelse_, dict(env))
            self.guard_stack.pop()
            t1, t2 = _terminates(body_), _terminates(orelse_)
            if t1 and not t2:
                return e2
            if t2 and not t1:
                return e1
            out = {}
            for k in set(e1) | set(e2):
                a, b = e1.get(k), e2.get(k)
                if a is None or b is None:
                    out[k] = phi([x for x in (a, b) if x is not None] + [T("undef", k)])
                else:
                    # keep the condition: the merged value is `a if test else b`
                    out[k] = a if a.key() == b.key() else T("ifexp", None, [g, a, b], node=st)
            return out
        if isinstance(st, (ast.For, ast.AsyncFor)):
            self._record_names(st.iter, env)
            it = self._tr(st.iter)
            assigned = _assigned_names(st.body) | _assigned_names([ast.Assign(targets=[st.target], value=ast.Constant(0))])
            pre = dict(env)
            loop_env = dict(env)
            for k in assigned:
                if k in pre:
                    loop_env[k] = phi([pre[k], T("carried", k)])
            self._bind_target(st.target, T("elem", None, [it]), loop_env)
            self.guard_stack.append(T("loop", None, [it]))
            body_env = self._block(st.body, loop_env)
            self.guard_stack.pop()
            out = dict(env)
            for k in set(body_env):
                if k in pre:
                    out[k] = pre[k] if body_env[k].key() == pre[k].key() else phi([pre[k], body_env[k]])
                else:
                    out[k] = body_env[k]
            out = self._block(st.orelse, out)
            return out
        if isinstance(st, ast.While):
            self._record_names(st.test, env)
            assigned = _assigned_names(st.body)
            loop_env = dict(env)
            for k in assigned:
                if k in env:
                    loop_env[k] = phi([env[k], T("carried", k)])
            self._record_names(st.test, loop_env)
            self.guard_stack.append(T("loop", None, [self._tr(st.test)]))
            body_env = self._block(st.body, loop_env)
            self.guard_stack.pop()
            out = dict(env)
            for k in body_env:
                out[k] = phi([env[k], body_env[k]]) if k in env and env[k].key() != body_env[k].key() else body_env[k]
            return out
        if isinstance(st, (ast.With, ast.AsyncWith)):
            for item in st.items:
                self._record_names(item.context_expr, env)
                if item.optional_vars is not None:
                    self._bind_target(item.optional_vars, self._tr(item.context_expr), env)
            return self._block(st.body, env)
        if isinstance(st, ast.Try):
            env = self._block(st.body, env)
            for h in st.handlers:
                env = self._block(h.body, env)
            env = self._block(st.orelse, env)
            return self._block(st.finalbody, env)
        if isinstance(st, (ast.FunctionDef, ast.AsyncFunctionDef)):
            for d in st.decorator_list:
                self._record_names(d, env)
            sub = FuncInfo(st.name, f"{self.fi.qual}.<locals>.{st.name}", self.fi.file, st, cls=self.fi.cls,
                           parent=self.fi)
            self.nested[st.name] = Expander(self.repo, sub, outer_env=env)
            env[st.name] = T("localfn", st.name)
            return env
        if isinstance(st, (ast.Assert,)):
            self._record_names(st.test, env)
            if st.msg is not None:
                self._record_names(st.msg, env)
            return env
        if isinstance(st, ast.Raise):
            if st.exc is not None:
                self._record_names(st.exc, env)
            return env
        if isinstance(st, ast.Delete):
            for t in st.targets:
                self._record_names(t, env)
                if isinstance(t, (ast.Attribute, ast.Subscript)):
                    base = t.value
                    self.stores.append(Store("del", self._tr(base),
                                             T("const", t.attr) if isinstance(t, ast.Attribute) else self._tr(t.slice),
                                             T("const", None), t, st, tuple(self.guard_stack)))
            return env
        for ch in ast.iter_child_nodes(st):
            if isinstance(ch, ast.expr):
                self._record_names(ch, env)
        return env

    # -- expressions -------------------------------------------------------------------
    def _positional(self, fname, args, kw):
        """f(a, q=c, p=b) with `def f(x, p, q)` is f(a, b, c): keyword arguments of a call to a function of the package (module-level
        or nested in this function) are put into the positions of the signature, so that call style does not matter.  Parameters are
        filled from the left as far as they are supplied; what cannot be placed stays a keyword."""
        if not kw or "**" in kw or any(a.op == "star" for a in args):
            return args, kw
        node = None
        ne = self.nested.get(fname)
        if ne is not None:
            node = ne.fi.node
        else:
            mi = self.repo.mods.get(self.fi.file)
            r = self.repo.resolve_name(mi, fname) if mi is not None else None
            if isinstance(r, FuncInfo) and r.cls is None:
                node = r.node
        if node is None or node.args.vararg is not None or node.args.posonlyargs:
            return args, kw
        names = [a.arg for a in node.args.args]
        args, kw = list(args), dict(kw)
        for nm in names[len(args):]:
            if nm in kw:
                args.append(kw.pop(nm))
            else:
                break
        return args, kw

    def _rows_alias(self):
        """whether `self.nodes.index` may be read as `self._nodes_in_view` in this function: in methods of the module classes, except
        where the lists themselves are (re)defined and in the two selection funnels, whose rules speak of the table's index"""
        r = getattr(self, "_rows_alias_v", None)
        if r is None:
            fi = self.fi
            top = fi
            while getattr(top, "parent", None) is not None:
                top = top.parent
            r = bool(top.cls) and top.name not in ("_at_nodes", "_at_edges", "__getattr__", "__init__", "_init_view", "_set_inds_in_view") and \
                not any(isinstance(n, ast.Attribute) and isinstance(n.ctx, ast.Store) and n.attr in ("_nodes_in_view", "_edges_in_view") for n in ast.walk(top.node))
            if r:
                try:
                    r = any(b_.name == "Module" for b_ in self.repo.mro(top.cls))
                except Exception:
                    r = False
            self._rows_alias_v = r
        return r

    def _inline_setter(self, c, st):
        """`self.m(a, b)` where m is a method of the same class that ONLY assigns attributes of the object (`self.x = a`,
        `self.base.y = b`, `self.base.n -= a`) is those assignments: moving a group of assignments into such a method, or back, is the
        same program.  The call itself stays recorded as well."""
        if not (isinstance(c.func.value, ast.Name) and c.func.value.id == "self" and self.fi.cls):
            return
        if any(isinstance(a_, ast.Starred) for a_ in c.args) or any(k_.arg is None for k_ in c.keywords) or getattr(self, "_set_depth", 0) > 1:
            return
        g = None
        for b_ in self.repo.mro(self.fi.cls):
            if c.func.attr in b_.methods:
                g = b_.methods[c.func.attr]
                break
        if g is None or g.node is self.fi.node or g.node.decorator_list:
            return
        body = [x for x in g.node.body if not (isinstance(x, ast.Expr) and isinstance(x.value, ast.Constant)) and not isinstance(x, ast.Pass)]

        def self_rooted(t):
            while isinstance(t, ast.Attribute):
                t = t.value
            return isinstance(t, ast.Name) and t.id == "self"
        if not body or not all(isinstance(x, (ast.Assign, ast.AugAssign, ast.AnnAssign)) and
                               all(isinstance(t, ast.Attribute) and self_rooted(t) for t in (x.targets if isinstance(x, ast.Assign) else [x.target]))
                               and not any(isinstance(y, (ast.Call, ast.Lambda, ast.Yield, ast.Await, ast.NamedExpr)) for y in ast.walk(x.value if x.value is not None else x))
                               for x in body):
            return
        a = g.node.args
        if a.vararg or a.kwarg or a.posonlyargs:
            return
        names = [x.arg for x in a.args][1:]
        given = {}
        for i_, v_ in enumerate(c.args):
            if i_ >= len(names):
                return
            given[names[i_]] = self._tr(v_)
        for k_ in c.keywords:
            given[k_.arg] = self._tr(k_.value)
        defaults = dict(zip(names[len(names) - len(a.defaults):], a.defaults)) if a.defaults else {}
        for k_, d_ in zip(a.kwonlyargs, a.kw_defaults):
            if d_ is not None:
                defaults[k_.arg] = d_
        try:
            ex2 = Expander(self.repo, g)
        except Exception:
            return
        for n_ in names + [k_.arg for k_ in a.kwonlyargs]:
            if n_ not in given:
                if n_ not in defaults:
                    return
                given[n_] = ex2._tr(defaults[n_])

        def sub(t):
            if t.op == "param" and t.name in given:
                return given[t.name]
            if not t.args and not t.kw:
                return t
            return T(t.op, t.name, [sub(x) for x in t.args], {k: sub(v) for k, v in t.kw.items()}, t.node)
        for s2 in ex2.stores:
            if s2.kind != "attr":
                continue
            self.stores.append(Store("attr", sub(s2.base), s2.key, sub(s2.value) if s2.value is not None else None, s2.node, st,
                                     tuple(self.guard_stack)))

    def _inline_nested(self, fname, args, kw):
        """A call of a LOCAL helper that only computes a value (one return -- early returns merged --, no store into anything, no
        closure handed out, every parameter supplied positionally) is the value: `def h(a, b): return E` ... `x = h(p, q)` is x = E[p, q].
        Extracting an expression into such a helper, or inlining one, is the same program."""
        ne = self.nested.get(fname)
        if ne is None or kw or any(a.op == "star" for a in args) or getattr(self, "_inl_depth", 0) > 3:
            return None
        node = ne.fi.node
        a = node.args
        if a.vararg or a.kwarg or a.kwonlyargs or a.posonlyargs or node.decorator_list or len(a.args) != len(args):
            return None
        if ne.stores or not ne.returns:
            return None
        ret = ne.returns[0] if len(ne.returns) == 1 else ne.merged_return()
        if ret is None or any(x.op in ("localfn", "lambda", "carried") for x in ret.walk()):
            return None
        # generators / loops that rebind: only straight-line helpers
        if any(isinstance(x, (ast.For, ast.While, ast.Yield, ast.YieldFrom, ast.Try, ast.With, ast.Global, ast.Nonlocal)) for x in ast.walk(node)):
            return None
        m = {p_.arg: v for p_, v in zip(a.args, args)}

        def sub(t):
            if t.op == "param" and t.name in m:
                return m[t.name]
            if not t.args and not t.kw:
                return t
            return T(t.op, t.name, [sub(x) for x in t.args], {k: sub(v) for k, v in t.kw.items()}, t.node)
        return sub(ret)

    def term(self, e: ast.AST, at=None) -> T:
        return self._tr(e)

    def _tr(self, e, depth=0) -> T:
        k = id(e)
        if k in self._cache:
            return self._cache[k]
        t = self._tr0(e)
        t.node = t.node or e
        self._cache[k] = t
        return t

    def _tr0(self, e) -> T:
        if isinstance(e, ast.Name):
            b = self.bind.get(id(e))
            if b is not None:
                return b
            return T("free", e.id, node=e)
        if isinstance(e, ast.Constant):
            return T("const", e.value, node=e)
        if isinstance(e, ast.Attribute):
            b = self.bind.get(id(e))
            if b is not None:
                return b
            v = self._tr(e.value)
            if self._rows_alias():
                # `self.nodes.index` IS `self._nodes_in_view` (`self.edges.index`: `_edges_in_view`): a view's tables are cut out of the
                # base's with exactly these labels, a module's lists are read off its tables.  One spelling: the list.
                if e.attr == "index" and v.op == "attr" and v.name in ("nodes", "edges") and v.args and v.args[0].op == "param" and v.args[0].name == "self":
                    return T("attr", "_nodes_in_view" if v.name == "nodes" else "_edges_in_view", [v.args[0]], node=e)
                if e.attr == "values" and v.op == "attr" and v.name in ("_nodes_in_view", "_edges_in_view"):
                    return v
            return T("attr", e.attr, [v], node=e)
        if isinstance(e, ast.Subscript):
            sl = e.slice
            none_ = lambda x: (isinstance(x, ast.Constant) and x.value is None) or (isinstance(x, ast.Attribute) and x.attr == "newaxis")
            full_ = lambda x: (isinstance(x, ast.Slice) and x.lower is None and x.upper is None and x.step is None) or (isinstance(x, ast.Constant) and x.value is Ellipsis)
            if isinstance(e.ctx, ast.Load) and (none_(sl) or (isinstance(sl, ast.Tuple) and len(sl.elts) == 2 and none_(sl.elts[0]) and full_(sl.elts[1]))):
                # X[None] / X[None, :] / X[np.newaxis, ...]  is  expand_dims(X, axis=0)
                return T("mcall", "expand_dims", [T("free", "jnp"), self._tr(e.value)], {"axis": T("const", 0)}, node=e)
            if isinstance(e.ctx, ast.Load) and isinstance(sl, ast.Tuple) and len(sl.elts) == 2 and full_(sl.elts[0]) and \
                    isinstance(sl.elts[1], ast.Constant) and isinstance(sl.elts[1].value, int) and not isinstance(sl.elts[1].value, bool):
                # argwhere(M)[:, k]  is  where(M)[k]  (the k-th coordinate of the positions where M holds, in the same order)
                v_ = self._tr(e.value)
                if v_.op == "mcall" and v_.name == "argwhere" and len(v_.args) == 2 and not v_.kw and v_.args[0].op == "free" and sl.elts[1].value >= 0:
                    return T("item", sl.elts[1].value, [T("mcall", "where", list(v_.args), node=v_.node)], node=e)
            return T("sub", None, [self._tr(e.value), self._tr(e.slice)], node=e)
        if isinstance(e, ast.Slice):
            none = T("const", None)
            return T("slice", None, [self._tr(x) if x is not None else none for x in (e.lower, e.upper, e.step)], node=e)
        if isinstance(e, ast.Call):
            args = []
            for a in e.args:
                args.append(T("star", None, [self._tr(a.value)]) if isinstance(a, ast.Starred) else self._tr(a))
            kw = {}
            for k in e.keywords:
                kw[k.arg if k.arg is not None else "**"] = self._tr(k.value)
            f = e.func
            if isinstance(f, ast.Attribute):
                recv = self._tr(f.value)
                if f.attr == "to_numpy" and not args and not kw and recv.op == "attr" and recv.name in ("_nodes_in_view", "_edges_in_view") and self._rows_alias():
                    return recv
                if recv.op == "free" and recv.name in ("np", "jnp", "numpy"):
                    # array idioms with one spelling: vstack(L) is concatenate(L, axis=0) (for the 2-d arrays this code stacks);
                    # pad(X, ((0, n), (0, 0))) with the default constant 0 is concatenate((X, zeros((n, X.shape[1]))))
                    if f.attr == "vstack" and len(args) == 1 and not kw:
                        return T("mcall", "concatenate", [recv, args[0]], {"axis": T("const", 0)}, node=e)
                    # take(A, I, axis=0) is A[I]; without an axis only for an operand that is one-dimensional by construction
                    if f.attr == "take" and len(args) == 2 and (
                            (set(kw) == {"axis"} and kw["axis"].op == "const" and kw["axis"].name == 0) or (not kw and _one_dimensional(args[0]))):
                        return T("sub", None, [args[0], args[1]], node=e)
                    if f.attr == "pad" and len(args) == 2 and (not kw or (set(kw) == {"mode"} and kw["mode"].op == "const" and kw["mode"].name == "constant")):
                        w = args[1]
                        z = lambda x: x.op == "const" and x.name == 0
                        if w.op in ("tuple", "list") and len(w.args) == 2 and all(p_.op in ("tuple", "list") and len(p_.args) == 2 for p_ in w.args) and \
                                z(w.args[0].args[0]) and z(w.args[1].args[0]) and z(w.args[1].args[1]):
                            n_ = w.args[0].args[1]
                            cols = T("sub", None, [T("attr", "shape", [args[0]]), T("const", 1)])
                            zeros = T("mcall", "zeros", [recv, T("tuple", None, [n_, cols])], node=e)
                            return T("mcall", "concatenate", [recv, T("tuple", None, [args[0], zeros])], node=e)
                return T("mcall", f.attr, [recv] + args, kw, node=e)
            if isinstance(f, ast.Name) and f.id == "any" and (self.bind.get(id(f)) is None or self.bind.get(id(f)).op == "free") and len(e.args) == 1 and not e.keywords and \
                    isinstance(e.args[0], (ast.GeneratorExp, ast.ListComp)) and len(e.args[0].generators) == 1 and not e.args[0].generators[0].ifs and \
                    isinstance(e.args[0].elt, ast.Compare) and len(e.args[0].elt.ops) == 1 and isinstance(e.args[0].elt.ops[0], ast.Eq):
                # any(E(x) == v for x in L)  is  v in [E(x) for x in L]
                gen = e.args[0].generators[0]
                tv = {n_.id for n_ in ast.walk(gen.target) if isinstance(n_, ast.Name)}
                l_, r_ = e.args[0].elt.left, e.args[0].elt.comparators[0]
                dep = lambda x_: any(isinstance(n_, ast.Name) and n_.id in tv for n_ in ast.walk(x_))
                if dep(l_) != dep(r_):
                    el_, v_ = (l_, r_) if dep(l_) else (r_, l_)
                    return T("cmp", "in", [self._tr(v_), T("comp", None, [self._tr(el_), self._tr(gen.iter)], node=e.args[0])], node=e)
            if isinstance(f, ast.Name):
                b = self.bind.get(id(f))
                if b is not None and b.op not in ("free", "localfn"):
                    return T("callv", None, [b] + args, kw, node=e)
                args, kw = self._positional(f.id, args, kw)
                inl = self._inline_nested(f.id, args, kw)
                if inl is not None:
                    inl = T(inl.op, inl.name, inl.args, inl.kw, e) if (inl.args or inl.kw) else inl
                    return inl
                return T("call", f.id, args, kw, node=e)
            return T("callv", None, [self._tr(f)] + args, kw, node=e)
        if isinstance(e, ast.BinOp):
            return T("binop", BINOPS.get(type(e.op), "?"), [self._tr(e.left), self._tr(e.right)], node=e)
        if isinstance(e, ast.UnaryOp):
            return T("unary", type(e.op).__name__, [self._tr(e.operand)], node=e)
        if isinstance(e, ast.BoolOp):
            return T("bool", type(e.op).__name__, [self._tr(v) for v in e.values], node=e)
        if isinstance(e, ast.Compare):
            args = [self._tr(e.left)] + [self._tr(c) for c in e.comparators]
            return T("cmp", " ".join(CMPOPS.get(type(o), "?") for o in e.ops), args, node=e)
        if isinstance(e, ast.IfExp):
            test, a_, b_ = e.test, e.body, e.orelse
            while isinstance(test, ast.UnaryOp) and isinstance(test.op, ast.Not):   # `a if not c else b` is `b if c else a`
                test, a_, b_ = test.operand, b_, a_
            return T("ifexp", None, [self._tr(test), self._tr(a_), self._tr(b_)], node=e)
        if isinstance(e, (ast.Tuple, ast.List)):
            return T("tuple" if isinstance(e, ast.Tuple) else "list", None, [self._tr(x) for x in e.elts], node=e)
        if isinstance(e, ast.Dict):
            args = []
            for k, v in zip(e.keys, e.values):
                args.append(T("kv", None, [self._tr(k) if k is not None else T("const", "**"), self._tr(v)]))
            return T("dict", None, args, node=e)
        if isinstance(e, ast.JoinedStr):
            return T("fstr", None, [self._tr(v.value) if isinstance(v, ast.FormattedValue) else T("const", v.value)
                                    for v in e.values], node=e)
        if isinstance(e, ast.Lambda):
            return T("lambda", None, [self._tr(e.body)], node=e)
        if isinstance(e, (ast.ListComp, ast.SetComp, ast.GeneratorExp)):
            if len(e.generators) == 1 and not e.generators[0].ifs and not isinstance(e, ast.SetComp):
                z = _index_comp(self._tr(e.elt), self._tr(e.generators[0].iter))
                if z is not None:
                    return T("comp", None, list(z), node=e)
            return T("comp", None, [self._tr(e.elt)] + [self._tr(g.iter) for g in e.generators]
                     + [self._tr(c) for g in e.generators for c in g.ifs], node=e)
        if isinstance(e, ast.DictComp):
            return T("dictcomp", None, [self._tr(e.key), self._tr(e.value)] + [self._tr(g.iter) for g in e.generators], node=e)
        if isinstance(e, ast.Starred):
            return T("star", None, [self._tr(e.value)], node=e)
        if isinstance(e, ast.NamedExpr):
            return self._tr(e.value)
        return T("expr", type(e).__name__, [], node=e)


def _one_dimensional(t: "T") -> bool:
    """the array is one-dimensional whatever its inputs: a draw / counter / index list with a scalar size, a flattened array,
    or a row selection `X[I]` / reordering of such an array"""
    while t.op == "sub" and len(t.args) == 2 and t.args[1].op not in ("tuple", "const", "slice"):
        t = t.args[0]
    if t.op == "mcall" and t.name in ("ravel", "flatten", "flatnonzero", "arange") or \
            (t.op == "mcall" and t.name in ("cumsum", "unique") and "axis" not in t.kw):
        return True
    if t.op == "mcall" and t.name in ("choice", "permutation", "binomial", "randint"):
        sz = t.kw.get("size")
        return sz is not None and sz.op not in ("tuple", "list")
    return False


def _index_comp(body: "T", it: "T"):
    """`[E(A[k], B[k]) for k in range(len(A))]` is `[E(a, b) for a, b in zip(A, B)]` (and `[E(A[k]) for k in range(len(A))]` is
    `[E(a) for a in A]`): a comprehension that uses its counter only to index sequences walks those sequences in lock step.  Equal on
    every execution that does not raise (a shorter sequence raises IndexError in the index form).  Returns (body', iterable') or None."""
    if not (it.op == "call" and it.name == "range" and len(it.args) == 1 and not it.kw and it.args[0].op == "call" and
            it.args[0].name == "len" and len(it.args[0].args) == 1):
        return None
    X = it.args[0].args[0]
    ek = T("elem", None, [it]).key()
    is_k = lambda x: x.op == "elem" and x.key() == ek
    has_k = lambda x: any(is_k(y) for y in x.walk())
    seqs, bare = [], []

    def collect(x):
        if is_k(x):
            bare.append(x)
            return
        if x.op == "sub" and len(x.args) == 2 and is_k(x.args[1]) and not has_k(x.args[0]):
            if x.args[0].key() not in [s_.key() for s_ in seqs]:
                seqs.append(x.args[0])
            return
        for a in list(x.args) + list(x.kw.values()):
            collect(a)
    collect(body)
    if bare or not seqs:
        return None
    if X.key() not in [s_.key() for s_ in seqs]:
        seqs.append(X)
    keys = [s_.key() for s_ in seqs]
    new_it = seqs[0] if len(seqs) == 1 else T("call", "zip", list(seqs), node=it.node)
    el = T("elem", None, [new_it])

    def sub(x):
        if x.op == "sub" and len(x.args) == 2 and is_k(x.args[1]) and not has_k(x.args[0]):
            return el if len(seqs) == 1 else T("item", keys.index(x.args[0].key()), [el], node=x.node)
        if not x.args and not x.kw:
            return x
        return T(x.op, x.name, [sub(a) for a in x.args], {k_: sub(v) for k_, v in x.kw.items()}, x.node)
    return sub(body), new_it


def _neg_guard(g: "T") -> "T":
    """the negation of a branch condition; a membership / identity test is negated in place (`not (x in L)` is `x not in L`), so that
    `if x not in L: A` and `if x in L: pass else: A` put A under the same guard"""
    flip = {"in": "not in", "not in": "in", "is": "is not", "is not": "is"}
    if g.op == "cmp" and g.name in flip and len(g.args) == 2:
        return T("cmp", flip[g.name], list(g.args), dict(g.kw), g.node)
    return T("not", None, [g])


def _as_load(t):
    if isinstance(t, ast.Name):
        return ast.Name(id=t.id, ctx=ast.Load())
    if isinstance(t, ast.Attribute):
        return ast.Attribute(value=t.value, attr=t.attr, ctx=ast.Load())
    if isinstance(t, ast.Subscript):
        return ast.Subscript(value=t.value, slice=t.slice, ctx=ast.Load())
    return t


def _positive_if(st):
    """(test, body, orelse) with explicit negations of the test removed and the branches swapped accordingly"""
    test, body, orelse = st.test, st.body, st.orelse
    while isinstance(test, ast.UnaryOp) and isinstance(test.op, ast.Not):
        test, body, orelse = test.operand, orelse, body
    return test, body, orelse


def _terminates(stmts) -> bool:
    return bool(stmts) and isinstance(stmts[-1], (ast.Return, ast.Raise, ast.Continue, ast.Break))


def _assigned_names(stmts):
    out = set()
    for st in stmts:
        for n in ast.walk(st):
            if isinstance(n, ast.Name) and isinstance(n.ctx, ast.Store):
                out.add(n.id)
            elif isinstance(n, ast.AugAssign) and isinstance(n.target, ast.Name):
                out.add(n.target.id)
    return out
