"""Engine E7: third-party API conformance (rule API-1).

Every call whose callee is an attribute chain rooted at an imported third-party module is
bound against `inspect.signature` of the *runtime* object of the repository's own
environment (the bundled .pyi stubs are stale for `jnp.clip`, so stubs are not consulted).
Only third-party objects are imported; nothing from the repository is.
"""
from __future__ import annotations

import ast
import importlib
import inspect
from typing import Dict, List, Optional, Tuple

from .core import Repo, ModInfo, unparse

_obj_cache: Dict[str, object] = {}
_sig_cache: Dict[str, object] = {}


def _dotted(mi: ModInfo, e: ast.AST) -> Optional[str]:
    parts = []
    while isinstance(e, ast.Attribute):
        parts.append(e.attr)
        e = e.value
    if isinstance(e, ast.Name):
        imp = mi.imports.get(e.id)
        if imp and imp[0] == "ext":
            return ".".join([imp[1]] + parts[::-1])
    return None


def _resolve(dotted: str):
    if dotted in _obj_cache:
        return _obj_cache[dotted]
    parts = dotted.split(".")
    obj = None
    for i in range(len(parts), 0, -1):
        try:
            obj = importlib.import_module(".".join(parts[:i]))
        except Exception:
            continue
        try:
            for p in parts[i:]:
                obj = getattr(obj, p)
            break
        except Exception:
            obj = None
    _obj_cache[dotted] = obj
    return obj


def _enclosing(mi: ModInfo):
    enc = {}
    def visit(node, qual):
        for ch in ast.iter_child_nodes(node):
            q = qual
            if isinstance(ch, (ast.FunctionDef, ast.AsyncFunctionDef, ast.ClassDef)):
                q = f"{qual}.{ch.name}" if qual else ch.name
            enc[ch] = q
            visit(ch, q)
    visit(mi.tree, "")
    return enc


def check_calls(repo: Repo, files: Optional[List[str]] = None):
    """Yield (file, qualname, call node, dotted, verdict, message); verdict in
    {'ok','nosig','dynamic','unresolved','mismatch'}."""
    for rel, mi in sorted(repo.mods.items()):
        if files is not None and rel not in files:
            continue
        enc = _enclosing(mi)
        for n in ast.walk(mi.tree):
            if not isinstance(n, ast.Call):
                continue
            d = _dotted(mi, n.func)
            if not d:
                continue
            # typing-only / stdlib helpers are irrelevant but harmless
            obj = _resolve(d)
            q = enc.get(n, "")
            if obj is None:
                yield rel, q, n, d, "unresolved", "callee cannot be resolved in the runtime environment"
                continue
            if d not in _sig_cache:
                try:
                    _sig_cache[d] = inspect.signature(obj)
                except (TypeError, ValueError):
                    _sig_cache[d] = None
            sig = _sig_cache[d]
            if sig is None:
                yield rel, q, n, d, "nosig", ""
                continue
            if any(isinstance(a, ast.Starred) for a in n.args) or any(k.arg is None for k in n.keywords):
                yield rel, q, n, d, "dynamic", ""
                continue
            try:
                sig.bind(*[0] * len(n.args), **{k.arg: 0 for k in n.keywords})
                yield rel, q, n, d, "ok", ""
            except TypeError as e:
                yield rel, q, n, d, "mismatch", f"{d}{sig}: {e}"
