"""Engine E1: loader, resolver, obligations, reports, evidence, known findings.

Only the standard library is used.  Nothing from /repo is imported or executed; the
working tree is parsed with `ast` on every run.
"""
from __future__ import annotations

import ast
import hashlib
import json
import os
import sys
import time
from dataclasses import dataclass, field
from typing import Callable, Dict, Iterable, List, Optional, Tuple

VERIF = os.path.dirname(os.path.dirname(os.path.abspath(__file__)))
REPO = os.environ.get("VERIF_REPO", "/repo")
PKG = "jaxley"

DISCHARGED = "DISCHARGED"
VIOLATED = "VIOLATED"
UNDECIDED = "UNDECIDED"


class AnalysisError(Exception):
    """The checker cannot decide (anchor vanished, fragment left, rule went blind)."""


# --------------------------------------------------------------------------------------
# loader


@dataclass
class FuncInfo:
    name: str
    qual: str  # "Class.method" or "function" or "outer.<locals>.inner"
    file: str  # path relative to the repository root
    node: ast.FunctionDef
    cls: Optional[str] = None
    parent: Optional["FuncInfo"] = None

    @property
    def params(self) -> List[str]:
        a = self.node.args
        return [x.arg for x in a.posonlyargs + a.args]

    @property
    def is_static(self) -> bool:
        return any(
            isinstance(d, ast.Name) and d.id == "staticmethod"
            for d in self.node.decorator_list
        )


@dataclass
class ClassInfo:
    name: str
    file: str
    node: ast.ClassDef
    bases: List[str]
    methods: Dict[str, FuncInfo] = field(default_factory=dict)
    attrs: Dict[str, ast.expr] = field(default_factory=dict)  # class-level assignments


@dataclass
class ModInfo:
    file: str
    modname: str
    tree: ast.Module
    source: str
    functions: Dict[str, FuncInfo] = field(default_factory=dict)
    classes: Dict[str, ClassInfo] = field(default_factory=dict)
    # local name -> ("repo", modname, symbol|None) | ("ext", dotted)
    imports: Dict[str, Tuple] = field(default_factory=dict)


class Repo:
    def __init__(self, root: str = None):
        self.root = root or REPO
        self.mods: Dict[str, ModInfo] = {}  # by relative file
        self.by_modname: Dict[str, ModInfo] = {}
        self.classes: Dict[str, ClassInfo] = {}
        self.parse_errors: List[str] = []
        self._load()

    # -- loading ----------------------------------------------------------------------
    def _load(self):
        pkg_root = os.path.join(self.root, PKG)
        if not os.path.isdir(pkg_root):
            raise AnalysisError(f"package directory {pkg_root} not found")
        for d, _dirs, files in sorted(os.walk(pkg_root)):
            for f in sorted(files):
                if not f.endswith(".py"):
                    continue
                path = os.path.join(d, f)
                rel = os.path.relpath(path, self.root)
                src = open(path, encoding="utf-8").read()
                try:
                    tree = ast.parse(src, filename=rel)
                except SyntaxError as e:
                    raise AnalysisError(f"{rel} does not parse: {e}")
                modname = rel[:-3].replace(os.sep, ".")
                if modname.endswith(".__init__"):
                    modname = modname[: -len(".__init__")]
                mi = ModInfo(rel, modname, tree, src)
                self._index(mi)
                self.mods[rel] = mi
                self.by_modname[modname] = mi
        for mi in self.mods.values():
            for c in mi.classes.values():
                self.classes.setdefault(c.name, c)
        self._canonical_calls()

    def _canonical_calls(self):
        """Canonical call style: keyword arguments of calls to module-level functions OF THE PACKAGE are moved into the positions
        of the callee's signature (from the left, as far as they are supplied), in the syntax trees that every rule works on.
        `f(a, q=c, p=b)` and `f(a, b, c)` are the same call; no rule has to care how a call is written.  (Positions and line
        numbers of the argument nodes are untouched.)"""
        for mi in self.mods.values():
            for c in ast.walk(mi.tree):
                if not (isinstance(c, ast.Call) and isinstance(c.func, ast.Name) and c.keywords):
                    continue
                if any(isinstance(a, ast.Starred) for a in c.args) or any(k.arg is None for k in c.keywords):
                    continue
                r = self.resolve_name(mi, c.func.id)
                if not isinstance(r, FuncInfo) or r.cls is not None:
                    continue
                fa = r.node.args
                if fa.vararg is not None or fa.posonlyargs:
                    continue
                names = [a.arg for a in fa.args]
                kws = {k.arg: k for k in c.keywords}
                moved = []
                for nm in names[len(c.args):]:
                    if nm in kws:
                        moved.append(kws[nm])
                    else:
                        break
                if moved:
                    c.args = list(c.args) + [k.value for k in moved]
                    c.keywords = [k for k in c.keywords if k not in moved]

    def _index(self, mi: ModInfo):
        for n in mi.tree.body:
            if isinstance(n, (ast.FunctionDef, ast.AsyncFunctionDef)):
                mi.functions[n.name] = FuncInfo(n.name, n.name, mi.file, n)
            elif isinstance(n, ast.ClassDef):
                bases = []
                for b in n.bases:
                    if isinstance(b, ast.Name):
                        bases.append(b.id)
                    elif isinstance(b, ast.Attribute):
                        bases.append(b.attr)
                ci = ClassInfo(n.name, mi.file, n, bases)
                for m in n.body:
                    if isinstance(m, (ast.FunctionDef, ast.AsyncFunctionDef)):
                        ci.methods[m.name] = FuncInfo(
                            m.name, f"{n.name}.{m.name}", mi.file, m, cls=n.name
                        )
                    elif isinstance(m, ast.Assign) and len(m.targets) == 1:
                        if isinstance(m.targets[0], ast.Name):
                            ci.attrs[m.targets[0].id] = m.value
                    elif isinstance(m, ast.AnnAssign) and isinstance(m.target, ast.Name):
                        if m.value is not None:
                            ci.attrs[m.target.id] = m.value
                mi.classes[n.name] = ci
        for n in ast.walk(mi.tree):
            if isinstance(n, ast.Import):
                for a in n.names:
                    if a.name.split(".")[0] == PKG:
                        mi.imports[a.asname or a.name.split(".")[0]] = ("repo", a.name, None)
                    else:
                        mi.imports[a.asname or a.name.split(".")[0]] = (
                            "ext",
                            a.name if a.asname else a.name.split(".")[0],
                        )
            elif isinstance(n, ast.ImportFrom):
                mod = n.module or ""
                if n.level:
                    base = mi.modname.split(".")
                    base = base[: len(base) - n.level + (1 if mi.file.endswith("__init__.py") else 0)]
                    mod = ".".join(base + ([mod] if mod else []))
                for a in n.names:
                    if mod.split(".")[0] == PKG:
                        mi.imports[a.asname or a.name] = ("repo", mod, a.name)
                    else:
                        mi.imports[a.asname or a.name] = ("ext", mod + "." + a.name)

    # -- lookups ----------------------------------------------------------------------
    def mod(self, file: str) -> ModInfo:
        if file not in self.mods:
            raise AnalysisError(f"anchor file {file} vanished")
        return self.mods[file]

    def func(self, file: str, name: str) -> FuncInfo:
        mi = self.mod(file)
        if name not in mi.functions:
            raise AnalysisError(f"anchor function {file}:{name} vanished")
        return mi.functions[name]

    def cls(self, name: str) -> ClassInfo:
        if name not in self.classes:
            raise AnalysisError(f"anchor class {name} vanished")
        return self.classes[name]

    def mro(self, name: str) -> List[ClassInfo]:
        out, todo = [], [name]
        while todo:
            n = todo.pop(0)
            if n in self.classes and self.classes[n] not in out:
                out.append(self.classes[n])
                todo += self.classes[n].bases
        return out

    def method(self, cls: str, name: str) -> FuncInfo:
        """Resolve `name` along the MRO of `cls` (first definition wins)."""
        self.cls(cls)
        for c in self.mro(cls):
            if name in c.methods:
                return c.methods[name]
        raise AnalysisError(f"anchor method {cls}.{name} vanished")

    def has_method(self, cls: str, name: str) -> bool:
        return any(name in c.methods for c in self.mro(cls)) if cls in self.classes else False

    def subclasses(self, base: str) -> List[ClassInfo]:
        return [c for c in self.classes.values() if any(b.name == base for b in self.mro(c.name)[1:])]

    def all_functions(self) -> Iterable[FuncInfo]:
        for mi in self.mods.values():
            yield from mi.functions.values()
            for c in mi.classes.values():
                yield from c.methods.values()

    def resolve_name(self, mi: ModInfo, name: str):
        """Resolve a bare name used in module `mi` to a repository function/class."""
        if name in mi.functions:
            return mi.functions[name]
        if name in mi.classes:
            return mi.classes[name]
        imp = mi.imports.get(name)
        if imp and imp[0] == "repo":
            _k, mod, sym = imp
            seen = set()
            while True:
                target = self.by_modname.get(mod)
                if target is None or (mod, sym) in seen:
                    return None
                seen.add((mod, sym))
                if sym in target.functions:
                    return target.functions[sym]
                if sym in target.classes:
                    return target.classes[sym]
                nxt = target.imports.get(sym)
                if nxt and nxt[0] == "repo":
                    _k, mod, sym = nxt
                    continue
                return None
        return None

    def digest(self) -> str:
        h = hashlib.sha256()
        for f in sorted(self.mods):
            h.update(f.encode())
            h.update(self.mods[f].source.encode())
        return h.hexdigest()[:16]


# --------------------------------------------------------------------------------------
# small AST helpers shared by the rules


def unparse(n) -> str:
    try:
        return ast.unparse(n)
    except Exception:
        return "<?>"


def walk_no_nested(node: ast.AST):
    """ast.walk that does not descend into nested function/class definitions."""
    todo = list(ast.iter_child_nodes(node))
    while todo:
        n = todo.pop(0)
        yield n
        if isinstance(n, (ast.FunctionDef, ast.AsyncFunctionDef, ast.ClassDef, ast.Lambda)):
            continue
        todo[0:0] = list(ast.iter_child_nodes(n))


def nested_functions(fn: ast.FunctionDef) -> Dict[str, ast.FunctionDef]:
    out = {}
    for n in ast.walk(fn):
        if n is not fn and isinstance(n, ast.FunctionDef):
            out.setdefault(n.name, n)
    return out


def call_name(c: ast.Call) -> str:
    """Dotted text of the callee (`jnp.where`, `self.base.to_jax`, `f`)."""
    return unparse(c.func)


def attr_chain(e: ast.AST) -> Tuple[Optional[str], List[str]]:
    """Root name and attribute/subscript chain of an lvalue-like expression."""
    ch = []
    while isinstance(e, (ast.Attribute, ast.Subscript, ast.Call)):
        if isinstance(e, ast.Attribute):
            ch.append(e.attr)
            e = e.value
        elif isinstance(e, ast.Subscript):
            ch.append("[]")
            e = e.value
        else:
            ch.append("()")
            e = e.func
    return (e.id if isinstance(e, ast.Name) else None), ch[::-1]


def const_str(e) -> Optional[str]:
    return e.value if isinstance(e, ast.Constant) and isinstance(e.value, str) else None


# --------------------------------------------------------------------------------------
# obligations


@dataclass
class Ob:
    rule: str
    file: str
    func: str
    construct: str  # normalised text of the construct judged (never a line number)
    status: str
    detail: str = ""
    line: int = 0
    sides: Dict[str, str] = field(default_factory=dict)

    def key(self, prop: str):
        return (prop, self.rule, self.file, self.func, self.construct)

    def as_json(self):
        return {
            "rule": self.rule,
            "file": self.file,
            "function": self.func,
            "construct": self.construct,
            "status": self.status,
            "detail": self.detail,
            "line": self.line,
            "sides": self.sides,
        }


class Collector:
    """Collects obligations for one property run."""

    def __init__(self, prop: str):
        self.prop = prop
        self.obs: List[Ob] = []
        self.rules: Dict[str, Dict] = {}  # rule -> {"text":..., "min":...}
        self.info: Dict[str, object] = {}

    def rule(self, rid: str, text: str, min_instances: int = 1):
        self.rules[rid] = {"text": text, "min": min_instances}

    def add(self, rule, fi_or_file, construct, status, detail="", node=None, func=None, sides=None):
        if isinstance(fi_or_file, FuncInfo):
            file, fn = fi_or_file.file, fi_or_file.qual
        else:
            file, fn = fi_or_file, func or ""
        if func is not None:
            fn = func
        if not isinstance(construct, str):
            node = node or construct
            construct = unparse(construct)
        line = getattr(node, "lineno", 0) if node is not None else 0
        construct = " ".join(construct.split())
        if len(construct) > 240:
            construct = construct[:240]
        ob = Ob(rule, file, fn, construct, status, detail, line, sides or {})
        self.obs.append(ob)
        return ob

    def renamed(self, mapping: Dict[str, Optional[str]]) -> "Collector":
        """A view on this collector for SHARING a rule between properties: obligations raised under rule id k are recorded under
        mapping[k]; ids mapped to None are dropped; ids not in the mapping are dropped too (the sharing property claims only what it
        names)."""
        outer = self

        class _View(Collector):
            def __init__(self):
                self.prop, self.obs, self.rules, self.info = outer.prop, outer.obs, {}, {}

            def rule(self, rid, text, min_instances=1):
                pass

            def add(self, rule, *a, **kw):
                to = mapping.get(rule)
                if to is None:
                    return Ob(rule, "", "", "", DISCHARGED, "", 0, {})
                return Collector.add(outer, to, *a, **kw)
        return _View()

    def ok(self, rule, fi, construct, detail="", **kw):
        return self.add(rule, fi, construct, DISCHARGED, detail, **kw)

    def bad(self, rule, fi, construct, detail="", **kw):
        return self.add(rule, fi, construct, VIOLATED, detail, **kw)

    def unk(self, rule, fi, construct, detail="", **kw):
        return self.add(rule, fi, construct, UNDECIDED, detail, **kw)

    def check(self, cond, rule, fi, construct, detail_ok="", detail_bad="", **kw):
        if cond:
            return self.ok(rule, fi, construct, detail_ok, **kw)
        return self.bad(rule, fi, construct, detail_bad or detail_ok, **kw)


# --------------------------------------------------------------------------------------
# known findings


def load_known():
    path = os.path.join(VERIF, "known_findings.json")
    if not os.path.exists(path):
        return []
    return json.load(open(path))


# --------------------------------------------------------------------------------------
# driver


def run_property(prop: str, tier: str, check_fn: Callable, level: str, explanation: str,
                 assumptions: List[str], extra_cmd: str = "", post: Callable = None) -> int:
    t0 = time.time()
    seed = int(os.environ.get("VERIF_SEED", "0") or 0)
    scratch = os.environ.get("VERIF_NOEVID")
    evid_path = os.path.join(VERIF, "evidence" if not scratch else "out/scratch-evidence", f"{prop}.json")
    out_dir = os.path.join(VERIF, "out", prop if not scratch else f"scratch-{prop}")
    os.makedirs(os.path.dirname(evid_path), exist_ok=True)
    os.makedirs(out_dir, exist_ok=True)
    for f in os.listdir(out_dir):
        try:
            os.remove(os.path.join(out_dir, f))
        except OSError:
            pass
    col = Collector(prop)
    status = 0
    err = None
    try:
        repo = Repo()
        col.info["units_parsed"] = len(repo.mods)
        col.info["functions_indexed"] = sum(1 for _ in repo.all_functions())
        col.info["tree_digest"] = repo.digest()
        check_fn(repo, col, tier)
    except AnalysisError as e:
        err = f"{e}"
    except Exception as e:  # a checker bug is never a property violation
        import traceback

        err = f"checker raised {type(e).__name__}: {e}"
        traceback.print_exc()

    known = [k for k in load_known() if k.get("property") == prop and k.get("status") == "known"]
    known_keys = {(k["property"], k["rule"], k["file"], k["function"], k["construct"]): k for k in known}
    viol, known_hit, undec = [], [], []
    for ob in col.obs:
        if ob.status == VIOLATED:
            k = known_keys.get(ob.key(prop))
            if k is not None:
                known_hit.append((ob, k))
            else:
                viol.append(ob)
        elif ob.status == UNDECIDED:
            undec.append(ob)
    # vacuity guards
    blind = []
    per_rule = {}
    for ob in col.obs:
        d = per_rule.setdefault(ob.rule, {"instances": 0, DISCHARGED: 0, VIOLATED: 0, UNDECIDED: 0})
        d["instances"] += 1
        d[ob.status] += 1
    for rid, r in col.rules.items():
        n = per_rule.get(rid, {"instances": 0})["instances"]
        if err is None and n < r["min"]:
            blind.append(f"rule {rid} matched {n} instance(s), fewer than its lower bound {r['min']}")

    lines = []
    for ob, k in known_hit:
        lines.append(
            f"KNOWN-FINDING: property={prop} {k.get('id','')} {ob.rule} {ob.file}:{ob.func} {k.get('what_fails','')}"
        )
    matched = {id(k) for _ob, k in known_hit}
    for k in known:
        if id(k) not in matched and err is None:
            lines.append(
                f"STALE-FINDING: property={prop} {k.get('id','')} {k['rule']} {k['file']}:{k['function']} no longer matches any violated obligation"
            )
    for i, ob in enumerate(viol):
        h = hashlib.sha1("|".join(ob.key(prop)).encode()).hexdigest()[:12]
        rp = os.path.join(out_dir, f"{ob.rule}-{h}.json")
        json.dump(
            {
                "property": prop,
                **ob.as_json(),
                "explain_cmd": f"./check {prop} --only {ob.rule}",
            },
            open(rp, "w"),
            indent=1,
        )
        lines.append(f"VIOLATION property={prop} replay={rp}")
        lines.append(f"  {ob.rule} {ob.file}:{ob.line} {ob.func}: `{ob.construct}` -- {ob.detail}")
    if viol:
        status = 1
    if err is not None or undec or blind:
        if err:
            lines.append(f"ANALYSIS-ERROR property={prop} {err}")
        for ob in undec:
            lines.append(
                f"ANALYSIS-ERROR property={prop} undecided {ob.rule} {ob.file}:{ob.line} {ob.func}: `{ob.construct}` -- {ob.detail}"
            )
        for b in blind:
            lines.append(f"ANALYSIS-ERROR property={prop} {b}")
        if status == 0:
            status = 2

    n_ob = len(col.obs)
    n_dis = sum(1 for o in col.obs if o.status == DISCHARGED)
    samples = []
    seen_rules = set()
    for ob in col.obs:
        if ob.rule not in seen_rules or ob.status != DISCHARGED:
            seen_rules.add(ob.rule)
            samples.append(ob.as_json())
        if len(samples) >= 60:
            break
    distinct = len({(o.rule, o.file, o.func, o.construct) for o in col.obs})
    cov = {
        "explanation": explanation,
        "obligations": n_ob,
        "discharged": n_dis,
        "violated_unlisted": len(viol),
        "violated_known": len(known_hit),
        "undecided": len(undec),
        "evaluations": max(n_ob, 1),
        "distinct_nontrivial": distinct,
        "rule": "one obligation per (rule, file, function, construct) instance enumerated from the working tree; "
        "distinct = distinct keys; an obligation is non-trivial because each compares two independently derived "
        "facts (two code sites, or code against the property's oracle)",
        "checker_cmd": f"./check {prop} --tier {tier}" + (" " + extra_cmd if extra_cmd else ""),
        "trusted_base": [
            "python ast (parser) of /venv/bin/python",
            "the seeds/oracle tables listed in DESIGN.md for this property",
            "pandas/numpy/jax semantics of the primitives named in the rules",
        ],
        "samples": samples,
        "rules": {
            rid: {**col.rules.get(rid, {}), **per_rule.get(rid, {"instances": 0})}
            for rid in sorted(set(col.rules) | set(per_rule))
        },
        "known_findings_matched": [k.get("id", "") for _o, k in known_hit],
        "analysed": col.info,
        "exhaustive": True,
    }
    evid = {
        "property_id": prop,
        "tier": tier,
        "seed": seed,
        "level": level,
        "coverage": cov,
        "assumptions": assumptions,
        "wall_s": round(time.time() - t0, 3),
        "violations": len(viol),
    }
    if post is not None and err is None:
        try:
            extra, rc2, more = post()
            evid["coverage"].update(extra)
            lines += more
            if rc2 and status == 0:
                status = rc2
        except Exception as e:  # the self-test harness must never look like a violation
            lines.append(f"ANALYSIS-ERROR property={prop} self-test harness raised {type(e).__name__}: {e}")
            if status == 0:
                status = 2
        evid["wall_s"] = round(time.time() - t0, 3)
    if status == 2:
        evid["coverage"]["analysis_error"] = [l for l in lines if l.startswith("ANALYSIS-ERROR")]
    json.dump(evid, open(evid_path, "w"), indent=1, default=str)
    for l in lines:
        print(l)
    print(
        f"[{prop}] tier={tier} obligations={n_ob} discharged={n_dis} known={len(known_hit)} "
        f"violations={len(viol)} undecided={len(undec)} exit={status} ({evid['wall_s']}s)"
    )
    return status
