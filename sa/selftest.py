"""Both-way self-test of the checkers (thorough tier).

Every variant is an edit of the *current* working tree applied to a scratch copy (created with
mkdtemp outside /repo and /verif, removed afterwards).  `break` variants must turn an
obligation of the named rule VIOLATED; `preserve` variants (behaviour-preserving rewrites)
must leave every obligation as on the unchanged tree; `seeded` variants are the independent
mutants stored under /verif/seeded.  Variants are parsed, never executed.  An anchor text that
is no longer present makes the variant `stale` (reported, not an error) -- but if fewer than
half of a property's variants apply, the self-test itself is reported as broken.
"""
from __future__ import annotations

import importlib
import os
import shutil
import subprocess
import tempfile
import traceback
from typing import Dict, List

from . import core


def _copy_tree(dst):
    shutil.copytree(os.path.join(core.REPO, core.PKG), os.path.join(dst, core.PKG),
                    ignore=shutil.ignore_patterns("__pycache__"))


def _apply(variant, dst) -> str:
    if variant["kind"] == "seeded":
        pf = os.path.join(core.VERIF, "seeded", variant["seed"], "patch.diff")
        r = subprocess.run(["patch", "-p1", "-s", "-f", "--no-backup-if-mismatch", "-i", pf], cwd=dst, capture_output=True, text=True)
        return "ok" if r.returncode == 0 else "stale"
    path = os.path.join(dst, variant["file"])
    if not os.path.exists(path):
        return "stale"
    src = open(path, encoding="utf-8").read()
    if variant["old"] not in src:
        return "stale"
    src = src.replace(variant["old"], variant["new"], 1)
    try:
        compile(src, path, "exec")
    except SyntaxError:
        return "syntax"
    open(path, "w", encoding="utf-8").write(src)
    return "ok"


def run_variant(args):
    prop, variant = args
    d = tempfile.mkdtemp(prefix="sa-selftest-")
    out = {"id": variant["id"], "kind": variant["kind"], "status": None, "rules": [], "detail": ""}
    try:
        _copy_tree(d)
        st = _apply(variant, d)
        if st != "ok":
            out["status"] = st
            return out
        from rules import common
        col = core.Collector(prop)
        err = None
        try:
            repo = core.Repo(d)
            common.run_all(prop, repo, col, "quick")
        except core.AnalysisError as e:
            err = f"analysis-error: {e}"
        except Exception as e:
            err = f"crash: {type(e).__name__}: {e}"
        known = {(k["property"], k["rule"], k["file"], k["function"], k["construct"])
                 for k in core.load_known() if k.get("property") == prop and k.get("status") == "known"}
        viol = [o for o in col.obs if o.status == core.VIOLATED and o.key(prop) not in known]
        und = [o for o in col.obs if o.status == core.UNDECIDED]
        out["rules"] = sorted({o.rule for o in viol})
        out["n_viol"], out["n_und"], out["err"] = len(viol), len(und), err
        if viol:
            out["detail"] = f"{viol[0].rule} {viol[0].file}:{viol[0].func}: {viol[0].detail[:160]}"
        if variant["kind"] in ("break", "seeded"):
            want = variant.get("rule")
            if viol and (want is None or any(o.rule == want for o in viol)):
                out["status"] = "detected"
            elif viol:
                out["status"] = "detected-other-rule"
            elif err or und:
                out["status"] = "undecided"
                out["detail"] = err or f"{und[0].rule}: {und[0].detail[:120]}"
            else:
                out["status"] = "MISSED"
        else:
            if viol:
                out["status"] = "FALSE-ALARM"
            elif err or und:
                out["status"] = "UNDECIDED-ON-PRESERVING"
                out["detail"] = err or f"{und[0].rule}: {und[0].detail[:120]}"
            else:
                out["status"] = "silent"
    except Exception as e:
        out["status"] = "harness-error"
        out["detail"] = traceback.format_exc()[-300:]
    finally:
        shutil.rmtree(d, ignore_errors=True)
    return out


def run(prop: str, subset=None) -> Dict:
    from selftest.variants import VARIANTS

    vs = [v for v in VARIANTS.get(prop, []) if subset is None or v["id"] in subset]
    # seeded mutants of this property
    sd = os.path.join(core.VERIF, "seeded")
    if os.path.isdir(sd):
        for name in sorted(os.listdir(sd)):
            meta = os.path.join(sd, name, "catches.txt")
            if os.path.exists(os.path.join(sd, name, "patch.diff")):
                props = open(meta).read().split() if os.path.exists(meta) else [name.split("-")[0]]
                if prop in props and (subset is None or name in subset):
                    vs.append({"id": name, "kind": "seeded", "seed": name})
    if not vs:
        return {"variants": 0, "results": [], "ok": True, "problems": []}
    from multiprocessing import Pool

    with Pool(min(16, len(vs))) as pool:
        res = pool.map(run_variant, [(prop, v) for v in vs])
    problems = [r for r in res if r["status"] in ("MISSED", "FALSE-ALARM", "UNDECIDED-ON-PRESERVING", "harness-error", "syntax")]
    applied = [r for r in res if r["status"] not in ("stale",)]
    ok = not problems and len(applied) * 2 >= len(res)
    return {"variants": len(res), "applied": len(applied), "results": res, "ok": ok, "problems": problems,
            "detected": sum(1 for r in res if r["status"].startswith("detected")),
            "silent": sum(1 for r in res if r["status"] == "silent"),
            "undecided_on_breaking": sum(1 for r in res if r["status"] == "undecided")}
