"""Both-way self-test of the checkers (thorough tier).

Every variant is an edit of the *current* working tree applied to a scratch copy (created with
mkdtemp outside /repo and /verif, removed afterwards).  `break` variants must turn an
obligation of the named rule VIOLATED; `preserve` variants (behaviour-preserving rewrites)
must leave every obligation as on the unchanged tree; `seeded` variants are the independent
mutants stored under /verif/seeded.  Variants are parsed, never executed.  An anchor text that
is no longer present makes the variant `stale` (reported, not an error) -- but if fewer than
half of a property's variants apply, the self-test itself is reported as broken.
"""
from __future__ import annotations

import importlib
import os
import shutil
import subprocess
import tempfile
import traceback
from typing import Dict, List

from . import core


def _copy_tree(dst):
    shutil.copytree(os.path.join(core.REPO, core.PKG), os.path.join(dst, core.PKG),
                    ignore=shutil.ignore_patterns("__pycache__"))


def _apply(variant, dst) -> str:
    if variant.get("alpha"):
        # every local variable of every function of the package renamed (tools/alpha_rename.py): behaviour preserving
        import importlib.util
        spec = importlib.util.spec_from_file_location("alpha_rename", os.path.join(core.VERIF, "tools", "alpha_rename.py"))
        ar = importlib.util.module_from_spec(spec)
        spec.loader.exec_module(ar)
        n = 0
        for root, _d, files in os.walk(os.path.join(dst, core.PKG)):
            for f in files:
                if f.endswith(".py"):
                    n += ar.rename_file(os.path.join(root, f))
        return "ok" if n > 1000 else "stale"
    if variant.get("astmode"):
        # syntax-tree rewrites of the whole package (tools/ast_variants.py): inverted if/else, swapped factors; behaviour preserving
        import importlib.util
        spec = importlib.util.spec_from_file_location("ast_variants", os.path.join(core.VERIF, "tools", "ast_variants.py"))
        av = importlib.util.module_from_spec(spec)
        spec.loader.exec_module(av)
        return "ok" if av.apply(dst, variant["astmode"]) > 20 else "stale"
    if variant.get("hoist"):
        # call arguments moved into fresh temporaries throughout the package (tools/hoist_temps.py): behaviour preserving
        import importlib.util
        spec = importlib.util.spec_from_file_location("hoist_temps", os.path.join(core.VERIF, "tools", "hoist_temps.py"))
        ht = importlib.util.module_from_spec(spec)
        spec.loader.exec_module(ht)
        n = 0
        for root, _d, files in os.walk(os.path.join(dst, core.PKG)):
            for f in files:
                if f.endswith(".py"):
                    for k in range(2):
                        n += ht.hoist_file(os.path.join(root, f), k)
        return "ok" if n > 50 else "stale"
    if "seed" in variant:
        pf = os.path.join(core.VERIF, "seeded", variant["seed"], "patch.diff")
        r = subprocess.run(["patch", "-p1", "-s", "-f", "--no-backup-if-mismatch", "-i", pf], cwd=dst, capture_output=True, text=True)
        return "ok" if r.returncode == 0 else "stale"
    path = os.path.join(dst, variant["file"])
    if not os.path.exists(path):
        return "stale"
    src = open(path, encoding="utf-8").read()
    if "lineno" in variant:
        # computed edit: replace one line of the current tree (position taken from the syntax tree of this run)
        lines = src.split("\n")
        lines[variant["lineno"] - 1] = variant["text"]
        src = "\n".join(lines)
        try:
            compile(src, path, "exec")
        except SyntaxError:
            return "syntax"
        open(path, "w", encoding="utf-8").write(src)
        return "ok"
    if variant["old"] not in src:
        return "stale"
    src = src.replace(variant["old"], variant["new"], 1)
    try:
        compile(src, path, "exec")
    except SyntaxError:
        return "syntax"
    open(path, "w", encoding="utf-8").write(src)
    return "ok"


def run_variant(args):
    prop, variant = args
    d = tempfile.mkdtemp(prefix="sa-selftest-")
    out = {"id": variant["id"], "kind": variant["kind"], "status": None, "rules": [], "detail": ""}
    try:
        _copy_tree(d)
        st = _apply(variant, d)
        if st != "ok":
            out["status"] = st
            return out
        from rules import common
        col = core.Collector(prop)
        err = None
        try:
            repo = core.Repo(d)
            common.run_all(prop, repo, col, "quick")
        except core.AnalysisError as e:
            err = f"analysis-error: {e}"
        except Exception as e:
            err = f"crash: {type(e).__name__}: {e}"
        known = {(k["property"], k["rule"], k["file"], k["function"], k["construct"])
                 for k in core.load_known() if k.get("property") == prop and k.get("status") == "known"}
        viol = [o for o in col.obs if o.status == core.VIOLATED and o.key(prop) not in known]
        und = [o for o in col.obs if o.status == core.UNDECIDED]
        out["rules"] = sorted({o.rule for o in viol})
        out["n_viol"], out["n_und"], out["err"] = len(viol), len(und), err
        if viol:
            out["detail"] = f"{viol[0].rule} {viol[0].file}:{viol[0].func}: {viol[0].detail[:160]}"
        if variant["kind"] in ("break", "seeded"):
            want = variant.get("rule")
            if viol and (want is None or any(o.rule == want for o in viol)):
                out["status"] = "detected"
            elif viol:
                out["status"] = "detected-other-rule"
            elif err or und:
                out["status"] = "undecided"
                out["detail"] = err or f"{und[0].rule}: {und[0].detail[:120]}"
            else:
                out["status"] = "MISSED"
                # a stored change whose effect lies outside what a static argument can decide (recorded with its reason in
                # the change's meta.json and in DESIGN.md 9.4): reported, not counted as a defect of the checker
                if variant.get("seed"):
                    try:
                        import json as _json
                        why = _json.load(open(os.path.join(core.VERIF, "seeded", variant["seed"], "meta.json"))).get("static_out_of_reach")
                    except Exception:
                        why = None
                    if why:
                        out["status"] = "not-detected-out-of-reach"
                        out["detail"] = why[:200]
        else:
            if viol:
                out["status"] = "FALSE-ALARM"
            elif err or und:
                out["status"] = "UNDECIDED-ON-PRESERVING"
                out["detail"] = err or f"{und[0].rule}: {und[0].detail[:120]}"
                # a stored refactoring that rebuilds an anchored function beyond what the rule's normal forms cover: the check ends
                # WITHOUT a verdict (exit 2, never a violation).  Recorded with its reason in the change's meta.json and in DESIGN 9.4;
                # reported, not counted as silent and not as a defect of the checker.
                if variant.get("seed"):
                    try:
                        import json as _json
                        why = _json.load(open(os.path.join(core.VERIF, "seeded", variant["seed"], "meta.json"))).get("static_no_verdict")
                    except Exception:
                        why = None
                    if why and prop in why:
                        out["status"] = "no-verdict-restructured"
                        out["detail"] = str(why[prop])[:200]
            else:
                out["status"] = "silent"
    except Exception as e:
        out["status"] = "harness-error"
        out["detail"] = traceback.format_exc()[-300:]
    finally:
        shutil.rmtree(d, ignore_errors=True)
    return out


def computed_variants(prop: str) -> List[dict]:
    """Edits computed from the syntax tree of the current working tree for the two cross-cutting rules: (a) one
    parameter of an anchored function is renamed in the signature only, so the function no longer reads it;
    (b) a `break` is put in front of the body of a loop with effects."""
    import ast
    from rules import common
    repo = core.Repo(core.REPO)
    sc, ents, _ = common.scope(repo, prop)
    out = []
    fis = sorted((fi for fi in repo.all_functions() if (fi.file, fi.qual) in sc and fi.file not in common.SKIP_FILES),
                 key=lambda f: ((f.file, f.qual) not in ents, f.file, f.qual))
    for fi in fis:
        if fi.name in common.INTERFACE_METHODS:
            continue
        used = {x.id for x in ast.walk(fi.node) if isinstance(x, ast.Name) and isinstance(x.ctx, ast.Load)}
        a = fi.node.args
        cands = [x for x in a.posonlyargs + a.args + a.kwonlyargs if x.arg not in ("self", "cls") and x.arg in used
                 and x.lineno == x.end_lineno]
        if not cands:
            continue
        x = cands[-1]
        line = open(os.path.join(core.REPO, fi.file), encoding="utf-8").read().split("\n")[x.lineno - 1]
        new = line[:x.col_offset] + x.arg + "_unused" + line[x.col_offset + len(x.arg):]
        out.append({"id": f"{prop}-auto-params", "kind": "break", "rule": f"R-{prop}-params", "file": fi.file,
                    "lineno": x.lineno, "text": new, "what": f"parameter `{x.arg}` of {fi.qual} renamed in the signature only"})
        break
    for fi in fis:
        done = False
        for lp in ast.walk(fi.node):
            if isinstance(lp, ast.For) and len(lp.body) >= 1 and any(common._has_effect(s2) for s2 in lp.body) \
                    and not isinstance(lp.body[0], (ast.For, ast.While)):
                b0 = lp.body[0]
                line = open(os.path.join(core.REPO, fi.file), encoding="utf-8").read().split("\n")[b0.lineno - 1]
                ind = line[:len(line) - len(line.lstrip())]
                if b0.col_offset != len(ind):
                    continue
                out.append({"id": f"{prop}-auto-loops", "kind": "break", "rule": f"R-{prop}-loops", "file": fi.file,
                            "lineno": b0.lineno, "text": f"{ind}if len(str(0)) == 1:\n{ind}    break\n{line}",
                            "what": f"`break` in front of the body of `{ast.unparse(lp).splitlines()[0][:50]}` in {fi.qual}"})
                done = True
                break
        if done:
            break
    # (c) an invariant-restoring call of the must-call table is put behind a condition
    from rules.mustcall_table import TABLE
    byqual = {}
    for fi in repo.all_functions():
        byqual.setdefault(fi.qual, fi)
    for props, qual, (recv, name), _why in TABLE:
        if prop not in props or qual not in byqual:
            continue
        fi = byqual[qual]
        src = open(os.path.join(core.REPO, fi.file), encoding="utf-8").read().split("\n")
        done = False
        for st in fi.node.body:
            if isinstance(st, (ast.Expr, ast.Assign)) and st.lineno == st.end_lineno:
                c = st.value
                if isinstance(c, ast.Call) and ((isinstance(c.func, ast.Attribute) and c.func.attr == name and
                                                (recv is None or ast.unparse(c.func.value) == recv)) or
                                               (isinstance(c.func, ast.Name) and c.func.id == name and recv is None)):
                    line = src[st.lineno - 1]
                    ind = line[:len(line) - len(line.lstrip())]
                    if isinstance(st, ast.Assign):
                        continue
                    out.append({"id": f"{prop}-auto-mustcall", "kind": "break", "rule": f"R-{prop}-mustcall", "file": fi.file,
                                "lineno": st.lineno, "text": f"{ind}if len(str(0)) == 2:\n{ind}    {line.strip()}",
                                "what": f"`{line.strip()}` in {qual} made conditional"})
                    done = True
                    break
        if done:
            break
    return out


def run(prop: str, subset=None) -> Dict:
    from selftest.variants import VARIANTS

    vs = [v for v in VARIANTS.get(prop, []) if subset is None or v["id"] in subset]
    # seeded mutants of this property
    sd = os.path.join(core.VERIF, "seeded")
    if os.path.isdir(sd):
        for name in sorted(os.listdir(sd)):
            meta = os.path.join(sd, name, "catches.txt")
            if os.path.exists(os.path.join(sd, name, "patch.diff")):
                props = open(meta).read().split() if os.path.exists(meta) else [name.split("-")[0]]
                if prop in props and (subset is None or name in subset):
                    # <Cxx-pN> = behaviour-preserving refactoring by an independent author: must stay silent
                    kind = "preserve" if name.split("-")[1].startswith("p") else "seeded"
                    vs.append({"id": name, "kind": kind, "seed": name})
    if subset is None:
        vs += computed_variants(prop)
        # the whole package with every local variable renamed: no verdict may depend on how a local is called
        vs.append({"id": f"{prop}-auto-alpha", "kind": "preserve", "alpha": True, "file": "(all)", "rule": None})
        vs.append({"id": f"{prop}-auto-hoist", "kind": "preserve", "hoist": True, "file": "(all)", "rule": None})
        vs.append({"id": f"{prop}-auto-invert-if", "kind": "preserve", "astmode": "invert-if", "file": "(all)", "rule": None})
        vs.append({"id": f"{prop}-auto-swap-mul", "kind": "preserve", "astmode": "swap-mul", "file": "(all)", "rule": None})
        vs.append({"id": f"{prop}-auto-inline-temp", "kind": "preserve", "astmode": "inline-temp", "file": "(all)", "rule": None})
        vs.append({"id": f"{prop}-auto-kwargs", "kind": "preserve", "astmode": "kwargs", "file": "(all)", "rule": None})
        vs.append({"id": f"{prop}-auto-comp-to-loop", "kind": "preserve", "astmode": "comp-to-loop", "file": "(all)", "rule": None})
        vs.append({"id": f"{prop}-auto-rows-alias", "kind": "preserve", "astmode": "rows-alias", "file": "(all)", "rule": None})
    if not vs:
        return {"variants": 0, "results": [], "ok": True, "problems": []}
    from multiprocessing import Pool

    with Pool(min(16, len(vs))) as pool:
        res = pool.map(run_variant, [(prop, v) for v in vs])
    problems = [r for r in res if r["status"] in ("MISSED", "FALSE-ALARM", "UNDECIDED-ON-PRESERVING", "harness-error", "syntax")]
    applied = [r for r in res if r["status"] not in ("stale",)]
    ok = not problems and len(applied) * 2 >= len(res)
    return {"variants": len(res), "applied": len(applied), "results": res, "ok": ok, "problems": problems,
            "detected": sum(1 for r in res if r["status"].startswith("detected")),
            "silent": sum(1 for r in res if r["status"] == "silent"),
            "undecided_on_breaking": sum(1 for r in res if r["status"] == "undecided")}
